#!/bin/sh
# Pinned suite with the guard OFF; prints the summary line and the list of failures.
cd /repo && env -u RAMSES_RF_VERIF /venv/bin/python -m pytest -ra -q -p no:cacheprovider --timeout=900 --continue-on-collection-errors "$@" 2>&1 | grep -E "^(FAILED|ERROR)|passed|failed" | tail -15
