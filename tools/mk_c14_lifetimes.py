"""Write vrf/c14_lifetimes.json: the lifetime (seconds; null = cannot expire) of every message kind
(code, verb, array?) found in the log corpus, as the tree at hand computes it.  Run once on the
reference tree and reviewed by hand; the C14 monitor then uses it as the 'lifetime fixed by its kind'.
1F09 (payload countdown) and 3220 (per data-id) are handled by rule in the monitor, not listed here."""
import json, sys
sys.path.insert(0, "/verif")
from vrf import common
common.bind_repo()
from vrf import gen
from ramses_tx.packet import Packet

table = {}
conflicts = {}
extra = [
    ("2024-01-01T00:00:00.000000", "045 RP --- 01:145038 18:006402 --:------ 30C9 003 010999"),
    ("2024-01-01T00:00:00.000000", "045 RP --- 01:145038 18:006402 --:------ 2309 003 0107D0"),
    ("2024-01-01T00:00:00.000000", "045 RP --- 01:145038 18:006402 --:------ 000A 006 011001F40DAC"),
    ("2024-01-01T00:00:00.000000", "045  I --- 01:145038 --:------ 01:145038 12B0 003 01C800"),
    ("2024-01-01T00:00:00.000000", "045  I --- 01:145038 --:------ 01:145038 1F41 006 000100FFFFFF"),
    ("2024-01-01T00:00:00.000000", "045  I --- 01:145038 --:------ 01:145038 2309 003 0107D0"),
    ("2024-01-01T00:00:00.000000", "045  I --- 01:145038 --:------ 01:145038 30C9 003 0107D0"),
    ("2024-01-01T00:00:00.000000", "045  I --- 01:145038 --:------ 01:145038 000A 006 011001F40DAC"),
]
for dtm, frame in gen.corpus_frames() + extra:
    try:
        pkt = Packet.from_file(dtm, frame)
    except Exception:
        continue
    if pkt.verb not in (" I", "RP") or pkt.code in ("1F09", "3220"):
        continue
    key = f"{pkt.code}|{pkt.verb}|{int(bool(pkt._has_array))}"
    val = None if pkt._lifespan is False else pkt._lifespan.total_seconds()
    if key in table and table[key] != val:
        conflicts[key] = sorted({table[key], val}, key=str)
    table[key] = val
for k in conflicts:
    table.pop(k)
json.dump({"lifetimes": dict(sorted(table.items())), "not_uniform_per_kind": conflicts}, open("/verif/vrf/c14_lifetimes.json", "w"), indent=1)
print(len(table), "kinds;", len(conflicts), "non-uniform")
