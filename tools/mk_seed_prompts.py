#!/usr/bin/env python3
"""Write one prompt per property for a round of seed-writing agents (tools/seed_prompt_template.txt).
usage: mk_seed_prompts.py <round-dir e.g. /tmp/seedr5>   -> <round-dir>/<Cnn>.prompt, worktree <round-dir>/wt-<Cnn>"""
import glob, json, os, re, sys
root = sys.argv[1]
tpl = open(os.path.join(os.path.dirname(__file__), "seed_prompt_template.txt")).read()
extra = """

Changes tried in earlier rounds for this property (do NOT repeat these or near-variants of them; find other mechanisms, other code sites):
{tried}

For this round look further afield than the obvious anchor function: less-travelled transports (MQTT, packet-log / file replay, saved-state dict), start-up / shutdown / reconnect, error, timeout and cancellation paths, HVAC (ventilation) devices as well as heating, rarely used device classes, configuration options, the interaction of two features, state carried from one operation into the next, or two cooperating edits that each look harmless alone. A change that manifests only after a particular multi-step history or a particular coincidence is the most valuable kind.

Finally, add to your reply a short section 'Side observations': anything you noticed on the UNCHANGED tree that already looks like a violation of the property (with the input or sequence that shows it), if any.
"""
for line in open("/verif/properties.jsonl"):
    p = json.loads(line); pid = p["id"]
    tried = []
    for d in sorted(glob.glob(f"/verif/seeded/{pid}-*/notes.md")):
        first = next((l.strip("# \n") for l in open(d) if l.strip()), "")
        first = re.sub(r"^(C\d\d\s*/\s*)?[Cc]hange [ab]\s*[-:–—]*\s*", "", first)
        tried.append(f"  - {first[:200]}")
    wt, out = f"{root}/wt-{pid}", f"{root}/out-{pid}"
    text = tpl.replace("{wt}", wt).replace("{out}", out).replace("{title}", p["title"]) \
              .replace("{statement}", p["statement"]).replace("{quant}", p["quantifier"]["text"])
    text += extra.replace("{tried}", "\n".join(tried) or "  (none)")
    open(f"{root}/{pid}.prompt", "w").write(text)
    print(pid, len(tried), "earlier changes listed")
