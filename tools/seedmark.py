#!/usr/bin/env python3
"""usage: seedmark.py <seed-name> <check,check> [missed-first]  - record which checks catch a kept seed now"""
import json, sys
name, checks = sys.argv[1], sys.argv[2].split(",")
p = f"/verif/seeded/{name}/meta.json"
m = json.load(open(p))
missed = len(sys.argv) > 3 or not m.get("caught_by_checks")
m["caught_by_checks"] = checks
m["ran"] = "seedtest.sh patch.diff " + " ".join(checks) + " (quick tier)" + ("; missed when first kept, caught after strengthening (see DESIGN.md section 10)" if missed else "")
json.dump(m, open(p, "w"), indent=1)
print(name, "->", checks, "(missed first)" if missed else "")
