"""Delta-debug a C16 witness down to a few serial reads (investigation aid, not a check)."""
import json, sys
sys.path.insert(0, "/verif")
from vrf import common
common.bind_repo()
from vrf import c16, harness, vloop
from vrf.boundary import clocks_patched
from vrf.c13 import Rig
from vrf.common import Ctx

def reproduces(reads, meta, key):
    ctx = Ctx("C16", "quick", 0, 0, 1)
    harness.reset_transport_globals()
    async def go(loop):
        with clocks_patched(entity_dt=(meta["stack"] == "port")):
            rig = Rig(loop, ctx, meta["stack"], meta["eavesdrop"], lists=meta.get("lists"))
            rig.full_gaps = meta.get("full_gaps", True)
            await rig.start()
            for r in reads:
                if len(r) == 2:
                    await c16.feed_double(loop, rig, r[0][1], r[1][1], r[1][0])
                else:
                    await rig.feed(*r[0])
            cfg = {"disable_discovery": True, "enable_eavesdrop": meta["eavesdrop"]}
            await c16.check_snapshot(loop, ctx, rig, meta.get("include_expired", False), {"x": 1}, cfg)
            await rig.stop()
    vloop.run(go)
    return any(k.startswith(key) for k in ctx.violations), ctx

def main():
    data = json.load(open(sys.argv[1])); w = data["witnesses"][int(sys.argv[2]) if len(sys.argv) > 2 else 0]
    meta = w["history"]; key = data["key"]
    lines = [(p[:26], p[27:]) for p in meta["packets"]]
    doubles = set(meta.get("double_reads_at", ()))
    reads, i = [], 0
    while i < len(lines):
        if i in doubles and i + 1 < len(lines):
            reads.append([lines[i], lines[i + 1]]); i += 2
        else:
            reads.append([lines[i]]); i += 1
    ok, _ = reproduces(reads, meta, key)
    print("initial reproduces:", ok, len(reads))
    n = 2
    while len(reads) >= 2:
        chunk = max(1, len(reads) // n)
        reduced = False
        for s in range(0, len(reads), chunk):
            cand = reads[:s] + reads[s + chunk:]
            if cand and reproduces(cand, meta, key)[0]:
                reads = cand; n = max(n - 1, 2); reduced = True; break
        if not reduced:
            if chunk == 1: break
            n = min(n * 2, len(reads))
    # try splitting doubles
    for k, r in enumerate(reads):
        if len(r) == 2:
            cand = reads[:k] + [[r[0]], [r[1]]] + reads[k+1:]
            if reproduces(cand, meta, key)[0]:
                reads = cand
    ok, ctx = reproduces(reads, meta, key)
    print("minimal:", ok)
    for r in reads: print("  READ:", " || ".join(f for _, f in r))
    for k, v in ctx.violations.items():
        print(k); print(json.dumps(v["witnesses"][0], indent=1)[:3000])
main()
