#!/usr/bin/env python3
"""Regenerate MANIFEST.json from the table below (keeps it valid at all times)."""
import json, sys
from pathlib import Path

V = Path(__file__).resolve().parent
CHECKS = {
    "C04": ("exploration",
            "Inverse-pair monitor run on the real helper functions over their finite grids: all 65,536 temperature/double words, all k/100 temperatures, all percent/flag bytes, every minute of 2019-2029 (thorough), seconds of a 100-year window, all 2^24 device ids (thorough; quick strides them), all 3,001 schedule setpoints. Held = exact equality at every enumerated point; the thorough tier is exhaustive on those grids.",
            "Trusts CPython float/datetime arithmetic; sentinel words 31FF/7EFF/7FFF excluded from the temperature grid; strings compared without edge blanks.",
            "exhaustive grid sweep with exact-equality oracle (runtime inverse-pair monitor)", "§3 C04"),
    "C01": ("exploration",
            "Exception-class monitor at Packet.from_file/from_port/from_dict + Message() over corpus lines, 1-3-edit mutants, regex-sampled payloads of every known verb/code and gateway chatter; differential stream monitor (stream with junk vs without) through the real FileTransport (dict and text file), PortTransport on a fake serial port and MqttTransport on a fake paho client; partition monitor (every single cut incl. CR|LF, 1-byte reads, random cuts, empty reads) on the real serial read path. Held = no foreign exception class, no replay ended with an error, valid lines always delivered in order, identical frames for every partition, on everything explored.",
            "ValueError on a non-empty datable line is counted, not judged (the receive path rejects it cleanly); MQTT envelopes are well-formed; serial/MQTT OS layers are replaced by doubles at the pyserial/paho boundary.",
            "exception-class monitor + differential (metamorphic) stream/partition monitors on the real transports", "§3 C01"),
    "C02": ("exploration",
            "Round-trip monitor: str(Command(f)) == f and str(Packet(rssi+f)) == f with field-wise comparison over the frame grammar (all verbs, seqn forms, three address shapes, device types 00-63, known/unknown codes, payload 1-48 bytes, RSSI forms, comment annotations); CLI short forms against the canonical long form; and a real port gateway writing its packet log through the library's logger, replayed by a real file gateway, comparing the (timestamp, frame) sequences. Held = textual identity on everything explored.",
            "'Structurally valid' = accepted by COMMAND_REGEX with a legal address set; the undocumented 1-address ' I' CLI form is not judged; log sessions run on a virtual clock with a fake serial port.",
            "round-trip (parse/print) monitor + log write/replay differential on the real logger and replayer", "§3 C02"),
    "C07": ("fault_enumeration",
            "Client-boundary history monitor: the real PortProtocol + ProtocolContext run on a virtual-time event loop against a scripted transport; every send_cmd() call/return is recorded and judged (completes by call + min(timeout,20) + measured impersonation-notice time; returned packet is this caller's own echo or matching reply, never another's; any exception is in the ProtocolError family; no hang incl. the loop thread blocking on the sender's lock). Systematic single-caller walk over the arrival alphabet {lost, prompt, T-eps, T, T+eps, at-timeout (queued between the timer's expiry and its deferred retransmit), duplicated, reply-before-echo, near-miss foreign packets incl. other fault-log indexes} x QoS settings x gateway QoS modes, plus seeded multi-caller, duplicate-command, burst (2..40 callers) and transport-fault episodes (disconnect with library / serial errors in every state, reconnect, pause, write failures); plus an integration slice that runs the same client-boundary oracle end to end on the real PortTransport over a fake serial port (echo/reply loss and delay, serial read errors, sync-cycle avoidance live), and a second one on the real MqttTransport over a fake paho client (publishes as writes, {ts,msg} envelopes as reads, status-topic offline/online flaps).",
            "Scripted transport calls the same protocol callbacks as the real ones; virtual clock; protocol_fsm.dt (queue tie-break) left on the wall clock; callers use distinct request contexts except deliberate identical twins.",
            "client-boundary history + executable oracle over fault-scripted episodes on a virtual clock", "§3 C07"),
    "C08": ("fault_enumeration",
            "Write-ledger monitor over the same episode runner: per command, transmissions <= 1+min(max_retries,3) and == that when it fails for 'maximum retries'; a further transmission exists whenever the caller's timeout still allowed one; echo-less waits are 0.5*2^m and double (cap 4 s); no transmission after the caller's return event; command instances never interleave (A,B,A); at each dequeue the started command is minimal by (priority, queue-entry order) among live queued commands; callers that time out while queued are never transmitted; the count / give-up / after-completion / interleaving clauses are judged a second time on the bytes written to the fake serial port by the real PortTransport (integration slice with heavy echo/reply loss in half of its episodes), and the count / after-completion clauses on the publishes of the real MqttTransport; some serial episodes run with the duty-cycle limiter on and its allowance exhausted, or with a sync cycle imminent at the moment of a call, so that writes are held back when their caller gives up.",
            "Back-off clause applied to echo-less attempts (when the echo arrived and only the reply is missing the code keeps the wait constant: recorded, not judged); queue order judged at the dequeue tap (a time marker inside the library) against call/inner-call events at the boundary.",
            "write-boundary ledger + executable oracle over fault-scripted episodes on a virtual clock", "§3 C08"),
    "C09": ("fault_enumeration",
            "Quiescent-point invariant + aftermath probe over the same episodes: after a 30 s virtual quiet period the FSM is IsInIdle (Inactive iff disconnected), nothing live in flight or queued, every caller answered, the authors' is_sending predicate holds; after reconnecting (same protocol, new transport) a probe send to a responsive device succeeds; zero 'Coding error' assertions anywhere (caller exceptions, event-loop exception handler, library log) and zero unhandled loop exceptions during the episode; the aftermath probe and the loop-exception monitor are also run on the real PortTransport and on the real MqttTransport (integration slices).",
            "The probe and its writes are exempt from scripted faults; 'Future exception was never retrieved' for the rig's own injected link error is ignored (the rig never awaits wait_for_connection_lost).",
            "invariant at quiescent points + aftermath probe + loop-exception/log monitors over fault-scripted episodes", "§3 C09"),
    "C05": ("exploration",
            "Payload-shape monitor on the real decoder: JSON-serialisability, order-independence (three decode orders with fresh objects and warm caches), index consistency against an independently written frame-layout rule, element-wise equality of arrays (n=1..8) with single-element decodes for the seven array-capable codes, and range checks on the ratio/temperature keys - over the log corpus and regex-sampled payloads of every known verb/code under the legal address shapes.",
            "Only decodable lines are in the quantifier; a lone UFH-controller element is normalised from its one-element list; ratio/temperature key lists are committed in the check; one recorded finding (22E0/22E5/22E9 percent_4 = 1.15 for byte E6).",
            "payload-shape / metamorphic monitors (order, array-vs-element, index-vs-frame) on the real decoder", "§3 C05"),
    "C06": ("exploration",
            "Acceptance-level header-pairing monitor: for each (request, conforming reply) pair - real corpus RQ->RP/W->I adjacency pairs, schema-regex-sampled requests with context-pinned replies, constructor outputs - the real PortProtocol/FSM is sent the command on a virtual clock and offered exactly one candidate: the echo with the gateway id substituted (must be returned), the reply (must be returned when awaited), or a packet differing in exactly one of code / verb / device / context (must not be returned).",
            "Context near-misses are limited to the established index positions (0005/000C [0:4], 0404 [0:2]+[10:12], 0418/3220 [4:6], leading byte for a committed list of zone-indexed codes) and must themselves be decodable; requester/destination differences are recorded, not judged; two recorded 1FC9 findings.",
            "acceptance-level near-miss monitor on the real FSM (history + executable pairing rule)", "§3 C06"),
    "C17": ("exploration",
            "Schedule round-trip monitor: validator-accepted weekly schedules (7 ordered days, 1..20 ordered switchpoints, all 288 times, the whole 5.00-35.00 0.01 grid, DHW on/off, zones 00-0B/HW) through full_sched_to_fragz/fragz_to_full_sched with exact equality; every fragment non-empty and <= 41 bytes; the W|0404 command from the public constructor and the RP|0404 a controller would send are decoded by the library's own decoder and must carry the same fragment; the decoder must also invert an independent encoder; a real file-sourced Gateway is fed the RP fragment packets of one or two zones in all permutations (<=4 fragments) / seeded permutations with duplications and must report the encoded schedule or none.",
            "Input class = the statement's (seven days in order); reference encoder written from the documented 20-byte record layout; zones are created by an RP|000C first, as a controller would announce them.",
            "round-trip + metamorphic (order/duplication) monitor on the real encoder, decoder and Schedule reassembly", "§3 C17"),
    "C03": ("exploration",
            "Builder-contract monitor over all 45 CODE_API_MAP entries with committed argument tables (in-domain sweeps and out-of-domain probes: indexes in/out of range, temperatures on the 0.01 grid and beyond, mode x until x duration matrices, leap-day/DST/year-boundary datetimes, names, fan modes/params, all 256 OpenTherm ids, fragment numbers/counts, bind offers/accepts/confirms). Every call that returns a command is judged: verb|code equals its API-map key; the library's own decoder (Message._from_cmd) accepts the frame; every value asked for is found in the decoded payload to wire resolution. A refusal is always allowed.",
            "Argument tables are the only hand-written spec (domains cited from the constructors' own checks/docstrings); values that collide with wire sentinels are not probed; an RQ that decodes to {} by design has its index compared on the wire; 15 recorded findings (HVAC/WIP constructors, OpenTherm ids unknown to the decoder, DHW countdown/temporary encodings ...).",
            "contract monitor (advertised verb/code, decoder acceptance, decode-back equality) over swept argument tables", "§3 C03"),
    "C10": ("exploration",
            "Delivery / creation / write monitors against a 10-line reference rule written from the statement, over a sweep of configurations (known/block lists disjoint, overlapping, empty, with/without explicit HGI, second HGI, gateway block-listed, enforcement on/off, the 'enforced but empty' rule) x packets of the three address shapes with src/dst from every id class, on a real port Gateway (fake serial + virtual air) and a real file Gateway: messages seen by an application handler, devices created (incl. ids only *named* in a 000C payload), and frames that reach the serial port from async_send_cmd(). Packets reach the gateway three ways: live; from a packet cache at start-up (start(cached_packets=...): what the gateway then holds, saves again and builds devices from is judged); and live after the dongle on the port was swapped for one with another id (stop, new stick, start: the earlier id is then a foreign 18: device).",
            "Reference rule is the oracle; only packets the decoder accepts on their own are used; the hard-wired 01:000001 id is never generated; 'refused though allowed' is judged only when the refusal text names the device filter; completeness is not judged for restored packets (what a restore keeps also depends on verb and age); one recorded finding (a restore enforces the known_list only when it names exactly one explicit HGI).",
            "reference-rule differential monitor over configuration x packet sweeps on the real gateway stacks", "§3 C10"),
    "C11": ("exploration",
            "Write-time ledger at the serial.write() / MQTT publish() boundary under the real limiter code on a virtual clock (time.perf_counter as seen by the transport follows it): arrival patterns = back-to-back single caller, bursts of 2..200 concurrent callers, steady streams above and below the limit, long idle then burst, bucket-drain then mixed sizes, random mixes, payloads 1..48 bytes, virtual minutes to hours. Offline oracles over every window of the ledger (suffix max/min sweeps): bits written <= 384 bit/s x window + 23 040 + bits of the frames pending at the window's start; any k+1 writes span >= (k-1) x 0.05 s; every accepted frame written exactly once, unaltered, in request order; MQTT publishes in any window <= 160 + 1.33/s x window + 1, no publish held for more than 1 s, a drop only when the last minute already saw about 80 publishes.",
            "A frame's bit size is the library's own deemed size; limiter constants are the shipped ones; tolerance 1 us / 1 bit; every scenario starts with a full bucket.",
            "write-boundary ledger + offline all-windows oracle (conservation / spacing / exactly-once / order) on a virtual clock", "§3 C11"),
    "C12": ("fault_enumeration",
            "Schema-convergence and monotonicity monitors: a real port Gateway with discovery enabled and no schema runs on a virtual clock (incl. the clock the discovery scheduler reads) against a simulated controller whose configuration is ground truth (random subsets of zones 00-0B, classes radiator / zone-valve / electric / mixing, sensors of every permitted type incl. the controller itself or none, 0-8 actuators, any subset of DHW sensor / hot-water valve / heating valve, appliance control none / relay / OpenTherm bridge). The controller announces itself during or after gateway start-up and answers 0005 / 000C / routine RQs with frames built as text. Fault plans over the first polling round: none; every request or reply of one role lost (0005, 000C actuators, sensors, DHW, appliance); 30-60 % of them lost at random; everything lost for the first hour. Judged: schema == configuration within 2 polling rounds (no faults; normally within a minute) or 5 rounds (faults; the scheduler re-polls every 24 h and the statement sets no deadline); sampled every 15 virtual minutes, nothing learned ever disappears or changes and no device appears that the controller did not name.",
            "Simulated controller written from the frame layouts; devices other than the controller never answer; compared items are those the statement lists; write-spacing task slowed to 250 ms; faults confined to the first virtual hour.",
            "reference-configuration differential + monotonicity monitor under fault plans on a virtual clock", "§3 C12"),
    "C13": ("exploration",
            "Views-never-raise + engine-still-runs monitors on real gateways (file-sourced, fed through the real transport's receive function, and a port gateway on a fake serial port with sending enabled) over packet histories derived from the recorded logs by deletion, duplication, windowed reordering, splicing with other systems' / HVAC / binding logs and field mutation inside the schema regexes (extreme values), eavesdropping on/off: every public view of the gateway and of each device/system/zone/DHW is read every k-th packet; get_state() and _restore_cached_packets() (own snapshot, corrupted snapshot, restored twice, cancelled half-way) are invoked at seeded points and - returned or raised - must leave the engine as found (not paused, same handler, same read-only and discovery flags), a marker packet put on the wire afterwards must be handled end-to-end and a command must reach the serial port; after foreign traffic the known controller must still be a system, keep its zones and report a fresh zone temperature.",
            "Histories are re-timed to increasing unique timestamps; the marker is a 30C9 from a thermostat id no log uses; exceptions reaching the loop handler from deferred entity handlers are recorded, not judged; the port gateway runs with the library's own duty-cycle debug switch on (C11's subject).",
            "views-never-raise / engine-state / marker-packet monitors over mutated real histories", "§3 C13"),
    "C14": ("exploration",
            "Expiry-threshold monitor on the real Message._expired under a controlled clock (every I/RP message kind of the log corpus with its lifetime from a committed table, 1F09 countdowns 0..6553.5 s: never expired before L, always at 2L+3 s+eps and later, never un-expiring, on fresh and re-used message objects), plus a reference last-writer model on a real port Gateway under a virtual clock: seeded interleavings of per-zone and array forms of 30C9/2309/2349/000A/12B0, DHW 10A0/1F41, 2E04, 3150|FC, 0008|FC, TRV 30C9/3150, DHW-sensor 1260, relay 3EF0 across 1-12 zones; every attribute the model knows is compared after every packet; then the clock is advanced to L-eps (value must still be reported) and to 2L+3 s+eps of each attribute's newest message (must read as unknown).",
            "Lifetimes per kind come from a committed, reviewed table generated from the reference tree; frames are built by the harness from values; one recorded finding (first read after expiry still returns the expired value).",
            "threshold sweep on a controlled clock + reference-model (last-writer) monitor + ageing monitor on a virtual clock", "§3 C14"),
    "C15": ("exploration",
            "Schema validity / reload / graph monitors on real gateways over packet histories derived from the recorded logs (delete, duplicate, reorder, splice, field mutation, conflicting zone claims, zone updates) with eavesdropping on/off and max_zones 1..16: at every k-th packet the reported schema must be accepted by SCH_GLOBAL_SCHEMAS, list no device under two zones / two controllers and no zone index >= max_zones, and the live object graph must be symmetric (child in parent.childs <=> child._parent is parent, a zone's sensor belongs to that zone); after every packet no device may have changed parent or controller; at seeded prefixes a fresh Gateway(**schema) must load and reproduce the controllers, zones (class, sensor, actuators), hot-water subsystem and appliance control. Generated validator-accepted, consistent schemas (1-3 controllers, 0-12 zones, all classes / sensor types incl. the controller, 0-8 actuators, DHW parts, relay/OTB appliance control, UFH controllers, orphans) are loaded as configuration and put through the same monitors.",
            "Re-load comparison limited to the items the statement lists (orphans, UFH circuits and content-less zones are not compared); generated schemas use each device once; one recorded finding (controller-level 'orphans' lists cannot be loaded).",
            "validator / reload-differential / graph-invariant / no-silent-move monitors over mutated real histories and generated schemas", "§3 C15"),
    "C16": ("exploration",
            "Snapshot fix-point monitor: a real gateway (port stack on a fake serial port under one virtual clock, incl. two frames in one serial read; file stack) is fed histories derived from the recorded logs (delete/duplicate/reorder/splice/mutate); at seeded prefixes and at the end a snapshot is taken with include_expired on/off. Content monitor: every snapshot line is accepted by Packet.from_dict + Message(), is no RQ, no W other than 0404 and (unless asked for) not expired on the gateway's own clock. Fix-point monitor: a fresh Gateway built the way a restarting application does it (Gateway(**schema) + start(cached_packets)) must give back the identical packet dict and, eavesdropping off, the identical schema. Idempotence monitor: restoring the same snapshot again into the fresh gateway and into the original changes neither.",
            "Timestamps are unique and increasing (a real receiver stamps on arrival); the schema clause is judged on the port stack with eavesdropping off (a fresh file gateway has no clock of its own); each stick's own start-up signature packet is excluded; one recorded finding (313F kept although expired, deliberate).",
            "differential fix-point / idempotence monitor on snapshot -> fresh gateway -> snapshot, plus per-line content monitor", "§3 C16"),
    "C18": ("fault_enumeration",
            "Transfer-outcome and leftover-state monitors: a real port Gateway on a virtual clock (incl. the 3-minute lock timeout) against a simulated controller with versioned schedules (0006 counter, 0404 fragments from the harness' reference encoder). Episodes = get / get(force_io) / set on 1-3 zones, alone or concurrent, under a fault plan that addresses the version query and each fragment exchange (request, echo or reply lost once or on every retransmission; reply delayed 0.3-8 s; duplicated), controller-side schedule changes after any exchange (same / different fragment count), replies to another requester overheard, caller timeouts 0.05-20 s; a systematic single-fault walk first, then seeded combinations. Judged: every call ends within its bound; a returned schedule is a version the controller held during the call (never a mixture); a successful set leaves the requested schedule on the controller; afterwards the transfer lock is free and clean-link transfers for the same and another zone deliver the controller's schedule.",
            "Simulated controller written from the recorded exchanges; for calls without force_io a version up to 3 minutes old (the documented cache validity of the change counter) is acceptable; a schedule changed at the controller between a write's last ack and its version query is not distinguishable by any writer and is not generated.",
            "client-boundary history + versioned reference model + leftover-state/aftermath probes under step-addressed fault injection", "§3 C18"),
    "C19": ("exploration",
            "Reference-model monitor: a simulated controller log (unique increasing timestamps, up to 64 deep) drives the real FaultLog inside a real Evohome of a real Gateway through the dispatcher with real I|0418 / RP|0418 packets built as text; after every step the public views are compared with the model (strictly newest-first, no entry at two positions, no invented/altered entry, views never raise; equality with the controller's log after an uninterrupted read-through; push-down by one on an unsolicited announcement). A second part runs the real get_faultlog() of a port gateway against the simulated controller (start/limit variations, null-entry replies).",
            "Equality is demanded only after a read-through with nothing changing meanwhile; RP null entries carry no index (documented), so feed-only read-throughs end at the last real entry; one recorded finding (gap-absorbing announcement, pinned by the repo's own test).",
            "reference-model (history + executable model) monitor on the real FaultLog / get_faultlog", "§3 C19"),
    "C20": ("fault_enumeration",
            "Handshake-outcome monitor on both ends: two real port Gateways (a faked supplicant, a faked respondent) on one virtual air under a virtual clock, for the five supported pairing flows (RND->CTL, DHW->CTL, CO2->FAN itho, REM->FAN nuaire, DIS->FAN orcon; with and without the 10E0 addenda). A per-phase delivery script decides how the peer hears each handshake frame (lost once / always, 1-3 copies in one read or apart, delayed 0.5-6 s around the 3 s / 5 s / 5.1 s waits, order preserved) and neighbours' offers / accepts / confirms / 10E0s are mixed in; either side may start first. Judged: with every frame delivered in time both ends return the same offer/accept/confirm(/addenda) packets; every attempt ends within the sum of its waits with the tuple or a BindingError (no other exception class, nothing in the loop's exception handler); afterwards neither device is binding and a fresh attempt on a clean air succeeds with identical packets. Further fault kinds: the sender's own stick misses the echo of a phase frame (once / on every transmission, so that the send itself fails); the application cancels its attempt at 1 ms..4 s; the retry starts at once or after all timers have run out. Solo episodes run one library end against a scripted real-device-like peer (frames sent three times, the Orcon remote's offer to 63:262142), and API episodes start the supplicant through each device class's public initiate_binding_process() (which picks the code list itself: one bare code for DHW / Nuaire remote, tuples for the others).",
            "A respondent in pairing mode takes the first offer it hears (protocol), so a neighbour's offer is put on the air only after ours has reached the peer; the respondent class is made fakeable as the repository's tests do it; a retry at once is only made when no frame of the first attempt is still held up on the air; one recorded finding (a thermostat's public API confirms with a bare zone index, invalid unless zone 00).",
            "client-boundary history on both ends + retry/aftermath probe + loop-exception monitor under a per-phase delivery script on a virtual clock", "§3 C20"),
}
NOT_APPLICABLE = []

# what later rounds added to each check (appended to the level text)
ADDED = {
    "C03": " The humidity constructor is swept over its whole 1 % grid with half-LSB tolerance.",
    "C06": " Pairs include ventilation requests (one index byte to a fan / CO2 sensor) with a recorded reply of that code.",
    "C13": " Port histories include listen-only gateways (disable_sending) on a live port.",
    "C01": " Also: start-up of a serial gateway (the stick answers k >= 1 signature polls late and at once, in the read that carries traffic; repeated after the connection; a neighbour's signature), and saved states with one odd key (timezone-aware, undatable, empty, at either end of the calendar) handed to Gateway.start(); ValueError is accepted only for lines without a frame or with an undatable stamp.",
    "C02": " The log session uses each of the three log handlers the library can be configured with (plain, size-rotated, midnight-rotated) and compares comments as well.",
    "C04": " Every shard walks its grids under one of five POSIX time zones (DST gaps and repeats, a 45-minute offset); half the ids are asked for in the friendly form first; signed ids are among the out-of-range probes; ISO-text and object forms of a date-time must encode alike.",
    "C05": " Arrays are built for every legal sender class (incl. 23: programmers, 21: UFH controllers); a 'stamp forms' part decodes each line with a timezone-aware stamp and with the equivalent local stamp on either side of DST switches (zone per shard) and demands the same packet time and payload.",
    "C07": " The alphabet also has events queued behind the buffer check of a call (a packet with the command's own header, a disconnect), caller cancellations (timed, or in the iteration of another caller's call), writes failing with an error the transport did not convert, and per-caller num_repeats.",
    "C08": " Clause 'repeats not asked for': a command sent without repeats is never written twice within a fraction of its echo wait (per-caller num_repeats in the alphabet).",
    "C09": " The MQTT slice has flood episodes that spend the transport's whole transmit allowance before the quiet period and the probe; the alphabet additions of C07 apply.",
    "C10": " Configurations include the predicted gateway (known_list HGI entry) being block-listed as well. Scenario 'mute stick' (never identified: the placeholder id in received packets is an unlisted id); device creation is judged in lax restores as well.",
    "C11": " Pattern 'givers-up': callers withdraw requests while the transport holds them back; what is offered afterwards must still be written.",
    "C12": " Some faulted scenarios stop and start the gateway object between polling rounds. Fault plans include channel jams (every transmission of one kind of request fails, so the send itself fails); the quick tier walks through all plans.",
    "C14": " Part F: packet logs whose stamps step back (DST end, NTP) - every single-code attribute written after the step reports its last-received message.",
    "C15": " Generated schemas have up to three UFH controllers. A schema that cannot be obtained at all is a refutation; histories include fault-log reads by other requesters and an 'old head' (first packets 25-47 h older).",
    "C16": " Histories include an 'old head' (first packets 25-47 h older than the rest, honoured in full on the port stack) and fault-log reads by other requesters.",
    "C18": " Family 'sequence' on a clean link: write, edit at the controller (whole schedule or one late setpoint), learn of it (fetch / overheard set), write again (the held, an earlier or a new schedule): every write must put exactly its schedule into the controller by its own frames, every fetch must return what the controller holds.",
    "C19": " After each real get_faultlog() the saved-state lines of fault-log packets must be the packets the gateway holds; the stick echoes slowly while another reader is being answered (its replies are heard while ours still awaits its echo); the push-down oracle uses the log's real depth (64).",
    "C20": " Flows include a heating pairing with the 10E0 addenda (OEM code 00); the fault alphabet has 'at_deadline' arrivals (a frame reaches the waiting end in the loop iteration in which its wait runs out; loop iterations are given half a millisecond of virtual time for that).",
}
NOTE_FIX = {
    "C01": "MQTT envelopes are well-formed; serial/MQTT OS layers are replaced by doubles at the pyserial/paho boundary; in part (e) only exceptions raised inside ramses_tx count as the receive path (what a device does with a delivered message is C13's subject).",
    "C16": None,
}

def main():
    props = [json.loads(l) for l in open(V / "properties.jsonl")]
    checks = []
    for p in props:
        pid = p["id"]
        if pid not in CHECKS:
            continue
        level, text, note, technique, ref = CHECKS[pid]
        text += ADDED.get(pid, "")
        note = NOTE_FIX.get(pid) or note
        checks.append({
            "property_id": pid,
            "quick_cmd": f"./check {pid} quick",
            "thorough_cmd": f"./check {pid} thorough",
            "evidence_file": f"/verif/evidence/{pid}.json",
            "replay_cmd_template": f"./check {pid} --replay {{path}}",
            "engine": "vrf",
            "level_claimed": {"category": level, "text": text, "design_ref": ref},
            "level_note": note,
            "technique": technique,
        })
    na = list(NOT_APPLICABLE)
    claimed = {c["property_id"] for c in checks}
    listed = {n["property_id"] for n in na}
    for p in props:
        if p["id"] not in claimed and p["id"] not in listed:
            na.append({"property_id": p["id"], "reason": "check not built yet in this session (work in progress; see DESIGN.md §3 for the planned monitor)"})
    m = {
        "version": 1,
        "setup_cmd": "./setup.sh",
        "hooks": {
            "guard": "RAMSES_RF_VERIF",
            "enable": "no source hooks: every monitor attaches from outside (OS-boundary doubles, bound-method wrappers, loop exception handler, sys.monitoring); ./check exports RAMSES_RF_VERIF=1 for form only",
            "baseline_off_cmd": "cd /repo && env -u RAMSES_RF_VERIF /venv/bin/python -m pytest -ra -q -p no:cacheprovider --timeout=900 --continue-on-collection-errors",
            "source_commits": [],
            "add_only": True,
        },
        "engines": [{"name": "vrf", "path": "/verif/vrf", "serves_properties": sorted(claimed),
                     "kind_free_text": "Python runtime-monitoring harness: virtual-time asyncio loop, OS-boundary doubles (serial/MQTT/clock), virtual air with fault scripts, simulated controller, generators and per-property monitors/oracles"}],
        "checks": checks,
        "not_applicable": na,
        "notes": "Verdicts: exit 0 held on what was observed / exit 1 VIOLATION / exit 2 INCONCLUSIVE. known_findings.json lists recorded defects (by mechanism key) and repaired ones (fix: commits in /repo).",
    }
    (V / "MANIFEST.json").write_text(json.dumps(m, indent=1) + "\n")
    import jsonschema  # noqa
    jsonschema.validate(m, json.load(open("/root/.vp/MANIFEST.schema.json")))
    print("MANIFEST ok:", sorted(claimed))

main()
