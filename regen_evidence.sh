#!/bin/bash
# Re-run every quick check on /repo as it is and rewrite evidence/<id>.json; lists anything that is not HELD.
cd /verif || exit 2
[ -n "$(git -C /repo status --porcelain)" ] && { echo "/repo has local changes - refusing"; exit 2; }
bad=0
for c in C01 C02 C03 C04 C05 C06 C07 C08 C09 C10 C11 C12 C13 C14 C15 C16 C17 C18 C19 C20; do
  out=$(VERIF_SEED=${VERIF_SEED:-0} ./check $c ${1:-quick} 2>&1 | grep -v "^KNOWN-FINDING" | tail -1 | cut -c1-160)
  echo "$c: $out"
  echo "$out" | grep -q "^HELD" || bad=1
done
exit $bad
