#!/bin/sh
# Offline set-up: put icontract beside the repository's interpreter (optional helper; checks
# also install it lazily). Never fails the set-up if the wheelhouse lacks it.
cd "$(dirname "$0")"
mkdir -p .deps evidence/replays
/venv/bin/pip install --quiet --no-index --find-links /opt/veriftools/wheels --target .deps icontract >/dev/null 2>&1 || true
/venv/bin/python -c "import sys; sys.path.insert(0,'/repo/src'); import ramses_tx, ramses_rf; print('setup ok', ramses_tx.__file__)"
