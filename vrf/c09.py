"""C09 — see vrf/qos.py (shared episode runner; this check judges oracle_c09)."""

from . import qos, qos_int

PID = "C09"
LEVEL = "fault_enumeration"
SHARDS = {"quick": 16, "thorough": 16}
WALL_LIMIT = {"quick": 900, "thorough": 7200}
BUDGET = {
    "quick": {"single": 220, "multi": 150, "faulty": 120, "burst": 7},
    "thorough": {"single": 6000, "multi": 6000, "faulty": 5000, "burst": 140},
}
REQUIRED = {"episodes.single": 100, "episodes.multi": 100, "episodes.faulty": 50, "episodes.burst": 5, "writes": 500, "calls": 500, "int.episodes": 30, "int.calls": 60, "mqtt.episodes": 30, "mqtt.calls": 60}
RULE = (
    "episodes = callers (kind of command, wait_for_reply, max_retries, timeout, priority, start offset, impersonation) x per-transmission arrival scripts from the alphabet {lost, prompt, T-eps, T, T+eps, duplicated, reply before echo, near-miss foreign packets} x gateway QoS mode x transport events; systematic single-caller walk + seeded multi-caller, faulty and 2..40-caller burst episodes. Distinct = (number of callers, QoS mode, FSM state path, per-caller outcome, fault kind) signatures; every episode has at least one send so none is trivial."
)
ASSUMPTIONS = [
    "the transport is a scripted double that calls the same protocol callbacks as the real transports (connection_made(ramses=True), pkt_received, connection_lost, pause/resume_writing) and raises TransportError from write_frame on demand",
    "time is the virtual loop clock; ramses_tx.protocol_fsm.dt (queue tie-break) stays on the wall clock",
    "internal taps (set_state, queue.get_nowait, protocol._send_cmd) are time markers only; oracles read the client and write boundaries",
]


def run(ctx) -> None:
    qos.drive(ctx, qos.oracle_c09, PID, BUDGET[ctx.tier])
    qos_int.run_integration(ctx, PID)  # the same client-boundary oracle on the real serial transport
