"""Shared run/verdict/evidence machinery for every check (DESIGN §2.8, §2.9).

A check module defines:
    PID, LEVEL, RULE, ASSUMPTIONS, SHARDS = {"quick": n, "thorough": m}
    def run(ctx: Ctx) -> None         # one shard of the workload; records into ctx
    REQUIRED = {"counter": min, ...}  # reach counters that must be hit, else INCONCLUSIVE
and is started through `python -m vrf.check <PID> <tier>`.
"""

from __future__ import annotations

import hashlib
import json
import os
import shutil
import random
import subprocess
import sys
import time
import traceback
from collections import Counter
from pathlib import Path
from typing import Any

VERIF = Path(__file__).resolve().parent.parent
REPO_SRC = os.environ.get("VERIF_REPO_SRC", "/repo/src")
EVIDENCE = Path(os.environ.get("VERIF_EVIDENCE_DIR") or VERIF / "evidence")  # seed runs write elsewhere
REPLAYS = EVIDENCE / "replays"
KNOWN = VERIF / "known_findings.json"
PY = "/venv/bin/python"

MAX_WITNESSES_PER_KEY = 3
MAX_SAMPLES = 12


def bind_repo() -> None:
    """Make sure the library under test is imported from the tree being checked."""
    src = os.path.realpath(REPO_SRC)
    if sys.path[0] != src:
        sys.path.insert(0, src)
    deps = str(VERIF / ".deps")
    if os.path.isdir(deps) and deps not in sys.path:
        sys.path.append(deps)
    import logging

    quiet_library_logging()
    import ramses_rf  # noqa: F401
    import ramses_tx

    where = os.path.realpath(ramses_tx.__file__)
    if not where.startswith(src + os.sep):
        raise SystemExit(f"refusing to run: ramses_tx imported from {where}, not {src}")


def quiet_library_logging() -> None:
    """Library chatter off (monitors that need records attach their own handler)."""
    import logging

    for name in ("ramses_tx", "ramses_rf", "ramses_cli", "asyncio"):
        lg = logging.getLogger(name)
        lg.setLevel(100)
        lg.propagate = False
        if not lg.handlers:
            lg.addHandler(logging.NullHandler())


def jsonable(x: Any, depth: int = 0) -> Any:
    if depth > 12:
        return repr(x)[:200]
    if isinstance(x, (str, int, float, bool)) or x is None:
        return x
    if isinstance(x, dict):
        return {str(k): jsonable(v, depth + 1) for k, v in list(x.items())[:60]}
    if isinstance(x, (list, tuple, set, frozenset)):
        return [jsonable(v, depth + 1) for v in list(x)[:400]]
    return repr(x)[:300]


class Ctx:
    """What one shard observed."""

    def __init__(self, pid: str, tier: str, seed: int, shard: int, nshards: int):
        self.pid, self.tier, self.seed = pid, tier, seed
        self.shard, self.nshards = shard, nshards
        self.rng = random.Random(f"{pid}/{seed}/{shard}")
        self.evals = 0
        self.distinct: set[str] = set()
        self.samples: list[Any] = []
        self.counters: Counter[str] = Counter()
        self.violations: dict[str, dict[str, Any]] = {}
        self.inconclusive: list[str] = []
        self.info: dict[str, Any] = {}
        self.quick = tier == "quick"
        self.claim_dir: str | None = None  # set for shard processes: trials are handed out first come, first served

    def claim(self, trial: int) -> bool:
        """True for exactly one shard per trial number (shards that finish early take what is left)."""
        if self.claim_dir is None:
            return trial % self.nshards == self.shard
        try:
            os.close(os.open(os.path.join(self.claim_dir, str(trial)), os.O_CREAT | os.O_EXCL | os.O_WRONLY))
            return True
        except FileExistsError:
            return False

    # -- recording -----------------------------------------------------------------
    def ev(self, n: int = 1) -> None:
        self.evals += n

    def seen(self, sig: Any) -> None:
        self.distinct.add(sig if isinstance(sig, str) else repr(sig))

    def sample(self, x: Any, every: int = 1) -> None:
        if len(self.samples) < MAX_SAMPLES and (every <= 1 or self.evals % every == 0):
            self.samples.append(jsonable(x))

    def count(self, name: str, n: int = 1) -> None:
        self.counters[name] += n

    def violate(self, key: str, what: str, witness: Any) -> None:
        """Record a refuting observation under its *mechanism key* (never a hash)."""
        v = self.violations.setdefault(
            key, {"key": key, "what": what, "count": 0, "witnesses": []}
        )
        v["count"] += 1
        ep = getattr(self, "episode", None)
        if ep and isinstance(witness, dict) and "episode" not in witness:
            witness = dict(witness, episode=ep)  # what re-creates the run that produced this witness
        if len(v["witnesses"]) < MAX_WITNESSES_PER_KEY:
            v["witnesses"].append(jsonable(witness))

    def inconclusive_because(self, why: str) -> None:
        if why not in self.inconclusive:
            self.inconclusive.append(why)

    # -- (de)serialisation between shard and parent --------------------------------
    def dump(self) -> dict[str, Any]:
        return {
            "evals": self.evals,
            "distinct": sorted(self.distinct),
            "samples": self.samples,
            "counters": dict(self.counters),
            "violations": self.violations,
            "inconclusive": self.inconclusive,
            "info": jsonable(self.info),
        }

    def merge(self, d: dict[str, Any]) -> None:
        self.evals += d["evals"]
        self.distinct.update(d["distinct"])
        for s in d["samples"]:
            if len(self.samples) < MAX_SAMPLES:
                self.samples.append(s)
        self.counters.update(d["counters"])
        for k, v in d["violations"].items():
            mine = self.violations.setdefault(
                k, {"key": k, "what": v["what"], "count": 0, "witnesses": []}
            )
            mine["count"] += v["count"]
            for w in v["witnesses"]:
                if len(mine["witnesses"]) < MAX_WITNESSES_PER_KEY:
                    mine["witnesses"].append(w)
        for why in d["inconclusive"]:
            self.inconclusive_because(why)
        for k, v in d.get("info", {}).items():
            if isinstance(v, (int, float)) and isinstance(self.info.get(k), (int, float)):
                self.info[k] += v
            elif isinstance(v, list) and isinstance(self.info.get(k), list):
                self.info[k] = (self.info[k] + v)[:40]
            else:
                self.info.setdefault(k, v)


def load_known(pid: str) -> tuple[dict[str, dict[str, Any]], list[dict[str, Any]]]:
    if not KNOWN.exists():
        return {}, []
    data = json.loads(KNOWN.read_text())
    open_ = {f["key"]: f for f in data.get("findings", []) if f["property"] == pid}
    fixed = [f for f in data.get("fixed", []) if f["property"] == pid]
    return open_, fixed


def tier_and_seed(argv: list[str]) -> tuple[str, int]:
    tier = os.environ.get("VERIF_TIER") or "quick"
    for a in argv:
        if a in ("quick", "thorough"):
            tier = a
    seed = int(os.environ.get("VERIF_SEED", "0") or 0)
    return tier, seed


def run_parent(mod: Any, tier: str, seed: int) -> int:
    """Fan the workload out over shard subprocesses, merge, classify, write evidence."""
    t0 = time.time()
    pid = mod.PID
    nshards = mod.SHARDS[tier] if isinstance(mod.SHARDS, dict) else int(mod.SHARDS)
    total = Ctx(pid, tier, seed, 0, nshards)
    wall_limit = getattr(mod, "WALL_LIMIT", {"quick": 600, "thorough": 7200})[tier]
    REPLAYS.mkdir(parents=True, exist_ok=True)
    scratch = Path(os.environ.get("VERIF_SCRATCH", VERIF / ".scratch"))
    scratch.mkdir(parents=True, exist_ok=True)

    procs = []
    for i in range(nshards):
        out = scratch / f"{pid}-{tier}-{seed}-{i}-{os.getpid()}.json"
        cmd = [PY, "-m", "vrf.check", pid, tier, "--shard", str(i), str(nshards), str(out)]
        env = dict(os.environ, VERIF_SEED=str(seed), VERIF_TIER=tier, PYTHONHASHSEED="0")
        env.setdefault("PYTHONDONTWRITEBYTECODE", "1")
        procs.append((i, out, subprocess.Popen(cmd, cwd=VERIF, env=env)))
    for i, out, p in procs:
        try:
            rc = p.wait(timeout=max(5, wall_limit - (time.time() - t0)))
        except subprocess.TimeoutExpired:
            p.kill()
            p.wait()
            total.inconclusive_because(f"shard {i} stopped by wall-clock watchdog")
            rc = None
        if out.exists():
            try:
                total.merge(json.loads(out.read_text()))
            except Exception as err:  # a torn file is a harness failure
                total.inconclusive_because(f"shard {i} result unreadable: {err}")
            out.unlink()
        elif rc is not None:
            total.inconclusive_because(f"shard {i} exited rc={rc} without a result")

    shutil.rmtree(scratch / f"{pid}-{tier}-{seed}-{os.getpid()}.claims", ignore_errors=True)

    if hasattr(mod, "finalize"):
        mod.finalize(total)

    for name, minimum in getattr(mod, "REQUIRED", {}).items():
        if total.counters.get(name, 0) < minimum:
            total.inconclusive_because(
                f"monitor reach '{name}'={total.counters.get(name, 0)} < {minimum}"
            )
    if total.evals < 1 or len(total.distinct) < 2:
        total.inconclusive_because("too few non-trivial cases were explored")

    open_, fixed = load_known(pid)
    new, known_hit = [], []
    for key, v in sorted(total.violations.items()):
        if key in open_:
            known_hit.append((open_[key], v))
        else:
            new.append(v)

    for f, v in known_hit:
        print(f"KNOWN-FINDING: property={pid} {f['what']} [key={f['key']} seen={v['count']}]")
    unseen_known = [k for k in open_ if k not in total.violations]

    rc = 0
    for v in new:
        h = hashlib.sha1(v["key"].encode()).hexdigest()[:10]
        path = REPLAYS / f"{pid}-{h}.json"
        path.write_text(
            json.dumps({"property": pid, "tier": tier, "seed": seed, **v}, indent=1)
        )
        print(f"VIOLATION property={pid} replay={path}   # {v['key']}: {v['what']} (x{v['count']})")
        rc = 1

    coverage = {
        "evaluations": total.evals,
        "distinct_nontrivial": len(total.distinct),
        "rule": mod.RULE,
        "samples": total.samples or ["(no samples recorded)"],
        "monitor_reach": dict(sorted(total.counters.items())),
        "known_findings_observed": [
            {"key": f["key"], "seen": v["count"]} for f, v in known_hit
        ],
        "known_findings_not_observed_this_run": unseen_known,
        "new_violation_keys": [v["key"] for v in new],
        "info": total.info,
        "shards": nshards,
    }
    if getattr(mod, "EXHAUSTIVE", {}).get(tier):
        coverage["exhaustive"] = True
    evidence = {
        "property_id": pid,
        "tier": tier,
        "seed": seed,
        "level": mod.LEVEL,
        "coverage": coverage,
        "assumptions": list(mod.ASSUMPTIONS),
        "wall_s": round(time.time() - t0, 2),
        "violations": len(new),
        "verdict": "violated" if new else ("inconclusive" if total.inconclusive else "held"),
        "inconclusive_reasons": total.inconclusive,
    }
    EVIDENCE.mkdir(parents=True, exist_ok=True)
    (EVIDENCE / f"{pid}.json").write_text(json.dumps(evidence, indent=1) + "\n")

    if rc == 0 and total.inconclusive:
        print(f"INCONCLUSIVE property={pid} reason={'; '.join(total.inconclusive)}")
        rc = 2
    elif rc == 0:
        print(
            f"HELD property={pid} tier={tier} seed={seed} evaluations={total.evals} "
            f"distinct={len(total.distinct)} wall={evidence['wall_s']}s"
        )
    return rc


def run_shard(mod: Any, tier: str, seed: int, shard: int, nshards: int, out: str) -> int:
    bind_repo()
    ctx = Ctx(mod.PID, tier, seed, shard, nshards)
    ctx.claim_dir = out.rsplit("-", 2)[0] + f"-{os.getppid()}.claims"
    os.makedirs(ctx.claim_dir, exist_ok=True)
    try:
        mod.run(ctx)
    except BaseException as err:  # harness failure: never a verdict about the library
        ctx.inconclusive_because(
            f"harness error in shard {shard}: {type(err).__name__}: {err} "
            f"@ {traceback.format_exc()[-400:]}"[:500]
        )
    tmp = out + ".tmp"
    with open(tmp, "w") as fh:
        json.dump(ctx.dump(), fh)
    os.replace(tmp, out)
    return 0
