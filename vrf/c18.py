"""C18 — schedule transfers end cleanly under faults and never return a mixed schedule.

A real port Gateway (virtual clock, incl. the 3-minute lock timeout) talks to a simulated
controller holding versioned schedules (0006 change counter, 0404 fragments produced by the
harness-side reference encoder of C17).  A fault plan addresses every exchange of a transfer:
the version query and each fragment request/reply can be lost (once, or on every
retransmission), delayed past the timers or duplicated; the controller can change this or
another zone's schedule (same or different fragment count) after any exchange; stale fragments
for this or other zones are put on the air meanwhile; 1-3 zones transfer concurrently; the
caller's own timeout expires at seeded points.

 (1) every get/set call ends (result, error or cancellation) within its bound on the virtual clock;
 (2) a returned schedule is one of the versions the controller held for that zone during the
     call window - never a mixture; a successful set leaves exactly the requested schedule on the
     controller;
 (3) afterwards nothing is left behind: the system-wide transfer lock is free and, on a clean
     link, a fresh transfer for the same zone and for another zone succeeds with the controller's
     current schedule.
"""

from __future__ import annotations

import asyncio
import copy
import re
from typing import Any

from . import air as airmod, harness, vloop
from .boundary import clocks_patched
from .c17 import gen_schedule, ref_fragments
from .mon import innermost_lib_frame

PID = "C18"
LEVEL = "fault_enumeration"
SHARDS = {"quick": 16, "thorough": 16}
WALL_LIMIT = {"quick": 900, "thorough": 5400}
RULE = (
    "episodes = {get, get(force_io), set} on 1-3 zones (sequential or concurrent) x fault plan over the exchanges "
    "(0006 query, fragment k): {lose request, lose echo, lose reply} x {once, every retransmission}, delay reply by "
    "{0.3, 0.6, 1.2, 3, 8 s}, duplicate reply; controller-side schedule change of this / another zone after exchange m "
    "(same / different fragment count); stale overheard fragments; caller timeout at {0.05 .. 20 s}; systematic "
    "single-fault walk first, then seeded combinations. Distinct = (operation, fault kind, target exchange, bump, "
    "concurrency, outcome)."
)
ASSUMPTIONS = [
    "the simulated controller answers RQ|0006, RQ|0404 and W|0404 as a real evohome does (frame layouts from the recorded exchanges in the source); schedules are encoded by the harness' own reference encoder",
    "acceptable result of a get = any version of that zone's schedule that was current on the controller at some time during the call (for calls without force_io: or up to 3 minutes before it, the documented validity of a cached change counter)",
    "bounds: get_schedule ends by its own 15 s timeout (+1 s slack); set_schedule by 240 s (3 min lock wait + sends); the caller's own wait_for bound when shorter",
    "the aftermath probes run with all faults off",
]
REQUIRED = {"episodes": 30, "calls": 60, "calls.returned": 20, "calls.failed": 5, "faults.applied": 20, "aftermath.probes": 30, "bumps": 5, "sequence.episodes": 20, "sequence.sets": 30, "sequence.gets": 10}

CTL, GWY_ID = "01:145038", "18:006402"


def rp_0404(idx: str, num: int, cnt: int, frag: str) -> str:
    payload = f"{idx}200008{len(frag) // 2:02X}{num:02X}{cnt:02X}{frag}"
    return f"RP --- {CTL} {GWY_ID} --:------ 0404 {len(payload) // 2:03d} {payload}"


class SimCtl:
    """A controller's schedule store: versioned, fragment-wise."""

    def __init__(self, loop, air: airmod.Air, rng, zones: list[str]) -> None:
        self.loop, self.air, self.rng = loop, air, rng
        self.counter = 0x0135
        self.sched: dict[str, dict[str, Any]] = {}
        self.frags: dict[str, list[str]] = {}
        self.history: dict[str, list[tuple[float, dict[str, Any]]]] = {z: [] for z in zones}  # (since, schedule)
        self.wip: dict[str, dict[int, str]] = {}
        self.exchanges = 0  # requests answered so far (bump hooks count these)
        self.hooks: list[tuple[int, Any]] = []  # (after n-th exchange, fn)
        self.replies_on = True
        self.counter_reads: list[float] = []  # when a change-counter query was answered
        for z in zones:
            self.set(z, gen_schedule(rng, "zone", z))
        air.add_listener(self.heard)

    def set(self, idx: str, sched: dict[str, Any]) -> None:
        self.sched[idx] = copy.deepcopy(sched)
        self.frags[idx] = ref_fragments(sched)
        self.counter += 1
        self.history[idx].append((self.loop.time(), copy.deepcopy(sched["schedule"])))

    def versions_during(self, idx: str, t0: float, t1: float) -> list[Any]:
        h = self.history[idx]
        out = []
        for i, (since, s) in enumerate(h):
            until = h[i + 1][0] if i + 1 < len(h) else float("inf")
            if since <= t1 and until >= t0:
                out.append(s)
        return out

    def heard(self, frame: str) -> None:
        if not self.replies_on:
            return
        reply = None
        if re.match(r"RQ ... 18:\d{6} 01:145038 --:------ 0006 001 00", frame):
            reply = f"RP --- {CTL} {GWY_ID} --:------ 0006 004 0005{self.counter:04X}"
            self.counter_reads.append(self.loop.time())
        elif m := re.match(r"RQ ... 18:\d{6} 01:145038 --:------ 0404 007 (..)200008..(..)(..)", frame):
            idx, num = m.group(1), int(m.group(2), 16)
            frags = self.frags.get(idx)
            if frags and 1 <= num <= len(frags):
                reply = rp_0404(idx, num, len(frags), frags[num - 1])
        elif m := re.match(r" W ... 18:\d{6} 01:145038 --:------ 0404 ... (..)200008(..)(..)(..)(.*)", frame):
            idx, n, num, tot, frag = m.groups()
            wip = self.wip.setdefault(idx, {})
            if wip.get("tot") != tot:  # a transfer of another size begins
                wip.clear()
                wip["tot"] = tot
            wip[int(num, 16)] = frag  # a repeated fragment simply overwrites itself
            if int(num, 16) == int(tot, 16) and all(i in wip for i in range(1, int(tot, 16) + 1)):
                frs = [wip[i] for i in range(1, int(tot, 16) + 1)]
                self.store_written(idx, frs)
                del self.wip[idx]
            reply = f" I --- {CTL} {GWY_ID} --:------ 0404 007 {idx}200008{n}{num}{tot}"
        if reply is None:
            return
        self.exchanges += 1
        self.air.inject(reply, delay=0.03)
        for n, fn in list(self.hooks):
            if self.exchanges == n:
                self.hooks.remove((n, fn))
                self.loop.call_later(0.035, fn)  # just after the reply left

    def store_written(self, idx: str, frs: list[str]) -> None:
        """Decode what was written with the harness' own decoder (zlib + the 20-byte record layout)."""
        import struct
        import zlib

        try:
            raw = zlib.decompress(bytes.fromhex("".join(frs)))
        except Exception:  # noqa: BLE001
            self.history[idx].append((self.loop.time(), "<undecodable>"))
            self.counter += 1
            return
        days: dict[int, list[dict[str, Any]]] = {}
        for i in range(0, len(raw), 20):
            rec = raw[i : i + 20]
            dow = rec[8]
            tod = struct.unpack_from("<H", rec, 12)[0]
            val = struct.unpack_from("<H", rec, 16)[0]
            days.setdefault(dow, []).append({"time_of_day": f"{tod // 60:02d}:{tod % 60:02d}", "heat_setpoint": val / 100})
        sched = {"zone_idx": idx, "schedule": [{"day_of_week": d, "switchpoints": sps} for d, sps in sorted(days.items())]}
        self.sched[idx] = sched
        self.frags[idx] = frs
        self.counter += 1
        self.history[idx].append((self.loop.time(), copy.deepcopy(sched["schedule"])))


class Faults:
    """Fault plan over frames: rules are matched in order; first match decides."""

    def __init__(self, ctx) -> None:
        self.ctx = ctx
        self.rules: list[dict[str, Any]] = []
        self.on = True

    def add(self, direction: str, pattern: str, action: str, times: int = 1, arg: float = 0.0) -> None:
        self.rules.append({"dir": direction, "re": re.compile(pattern), "action": action, "left": times, "arg": arg})

    def __call__(self, kind: str, frame: str, target: str) -> list[float]:
        base = 0.004 if kind == "echo" else 0.012
        if not self.on:
            return [base]
        direction = "echo" if kind == "echo" else ("to_sim" if target == "sim" else "to_gwy")
        for r in self.rules:
            if r["dir"] == direction and r["left"] > 0 and r["re"].search(frame):
                r["left"] -= 1
                self.ctx.count("faults.applied")
                self.ctx.count(f"faults.{r['action']}")
                if r["action"] == "drop":
                    return []
                if r["action"] == "delay":
                    return [base + r["arg"]]
                if r["action"] == "dup":
                    return [base, base + (r["arg"] or 0.05)]
        return [base]


EXCH = {"0006": r" 0006 00[14] ", "frag1": r" 0404 \d{3} ..200008..01", "frag2": r" 0404 \d{3} ..200008..02", "frag3": r" 0404 \d{3} ..200008..03", "any0404": r" 0404 "}


def plan_faults(rng, faults: Faults, systematic: int | None) -> dict[str, Any]:
    kinds = [(d, a) for d in ("to_sim", "echo", "to_gwy") for a in ("drop", "drop-all", "delay", "dup")]
    targets = list(EXCH)
    if systematic is not None:
        d, a = kinds[systematic % len(kinds)]
        tg = targets[(systematic // len(kinds)) % len(targets)]
        picks = [(d, a, tg)]
    else:
        picks = [(rng.choice(kinds) + (rng.choice(targets),)) for _ in range(rng.choice((0, 1, 1, 2, 3)))]
    desc = []
    for d, a, tg in picks:
        if a == "drop":
            faults.add(d, EXCH[tg], "drop", times=1)
        elif a == "drop-all":
            faults.add(d, EXCH[tg], "drop", times=rng.choice((4, 8, 99)))
        elif a == "delay":
            delay = rng.choice((0.3, 0.6, 1.2, 3.0, 8.0))
            faults.add(d, EXCH[tg], "delay", times=rng.choice((1, 2)), arg=delay)
            a = f"delay{delay}"
        else:
            faults.add(d, EXCH[tg], "dup", times=rng.choice((1, 3)), arg=rng.choice((0.01, 0.2, 1.0)))
        desc.append(f"{d}:{a}:{tg}")
    return {"faults": desc}


async def episode(loop: vloop.VirtualLoop, ctx, trial: int) -> None:
    from ramses_rf import exceptions as rexc
    from ramses_tx import exceptions as texc

    import random

    rng = random.Random(f"C18/{ctx.seed}/{trial}")  # every episode replays from (seed, trial) alone
    zones = rng.choice((["01", "03", "0A"], ["00", "03", "0A"]))[: rng.choice((2, 3))]
    faults = Faults(ctx)
    air = airmod.Air(loop, fault=faults)
    sim = SimCtl(loop, air, rng, zones)
    schema = {CTL: {"zones": {z: {"class": "radiator_valve"} for z in zones}}, "main_tcs": CTL}
    faults.on = False
    gwy = await harness.start_port_gateway(loop, air, GWY_ID, config={"disable_discovery": True}, **schema)
    await asyncio.sleep(0.5)
    tcs = gwy.tcs
    history: list[dict[str, Any]] = []
    meta: dict[str, Any] = {"seed": ctx.seed, "trial": trial, "zones": zones}

    # optionally: the zones already hold a schedule (so that caches and version logic matter)
    if rng.random() < 0.5:
        for z in zones:
            try:
                await asyncio.wait_for(tcs.zone_by_idx[z].get_schedule(), timeout=30)
            except Exception:  # noqa: BLE001
                pass
        meta["warm"] = True
        await asyncio.sleep(rng.choice((1.0, 200.0)))

    concurrent = rng.random() < 0.4
    ops = []
    for z in rng.sample(zones, rng.choice((1, 2, len(zones))) if concurrent else 1):
        op = rng.choice(("get", "get", "get-force", "set"))
        outer = rng.choice((None, None, 0.05, 0.2, 0.7, 2.0, 6.0, 20.0))
        ops.append((z, op, outer))
    meta["ops"] = [f"{op} zone {z}" + (f" (caller timeout {outer}s)" if outer else "") for z, op, outer in ops]
    systematic = trial if trial < 60 else None
    meta.update(plan_faults(rng, faults, systematic))
    # controller-side change after exchange m
    if rng.random() < 0.5:
        m = sim.exchanges + rng.randint(1, 5)
        # not a zone being written: a schedule changed at the controller between the last write ack and
        # the version query is indistinguishable, for any writer, from its own write (one counter)
        who = rng.choice([z for z in zones if z not in {zz for zz, op, _ in ops if op == "set"}] or [None])
        big = rng.random() < 0.4

        def bump(who=who, big=big) -> None:
            sim.set(who, gen_schedule(rng, "zone", who, stress=big))
            ctx.count("bumps")

        if who is not None:
            sim.hooks.append((m, bump))
        meta["bump"] = f"zone {who} after exchange +{m - sim.exchanges}{' (more fragments)' if big else ''}"
    # overheard fragments: the controller answering *another* requester (what it holds at that moment)
    if rng.random() < 0.4:
        z = rng.choice(zones)

        def overhear(z=z) -> None:
            frs = sim.frags[z]
            k = rng.randrange(len(frs))
            frame = rp_0404(z, k + 1, len(frs), frs[k]).replace(GWY_ID, "18:111111")
            air.inject(frame, faultable=False)

        for _ in range(rng.choice((1, 2, 4))):
            loop.call_later(rng.choice((0.01, 0.05, 0.2, 0.6, 2.0)), overhear)
        meta["overheard"] = f"replies to another requester for zone {z}"
    if "00" in zones and rng.random() < 0.7:
        # the controller also holds a hot-water schedule (index byte 00, marker 23) and answers another requester
        # for it while we fetch zone 00 (marker 20): same index byte, same fragment numbers
        dhw = ref_fragments(gen_schedule(rng, "dhw", "00"))
        for rep in range(rng.choice((1, 2, 3))):
            for k, fr in enumerate(dhw):
                pl = f"00230008{len(fr) // 2:02X}{k + 1:02X}{len(dhw):02X}{fr}"
                frame = f"RP --- {CTL} 18:111111 --:------ 0404 {len(pl) // 2:03d} {pl}"
                loop.call_later(rng.choice((0.03, 0.06, 0.1, 0.2, 0.5)) + 0.07 * k + rep * 0.3, air.inject, frame, 0.0, "045", False)
        meta["overheard_dhw"] = f"{len(dhw)}-fragment hot-water schedule answered to another requester"
        ctx.count("overheard.dhw_schedule")
        if not any(z == "00" for z, _, _ in ops):
            ops[0] = ("00", rng.choice(("get", "get-force")), ops[0][2])
            meta["ops"] = [f"{op} zone {z}" + (f" (caller timeout {outer}s)" if outer else "") for z, op, outer in ops]

    if trial % 5 == 4 and len(zones) >= 2:
        # directed family: our fetch for zone A queues behind a (slowed) transfer for zone B; meanwhile another
        # requester fetches all of A's schedule (overheard in full); then A's schedule is edited; then our fetch runs
        a, b = zones[0], zones[1]
        ops = [(b, rng.choice(("set", "get-force")), None), (a, rng.choice(("get", "get-force")), None)]
        meta["ops"] = [f"{op} zone {z}" for z, op, _ in ops]
        faults.rules.clear()
        faults.add("to_gwy", rf" 0404 \d{{3}} {b}200008", "delay", times=rng.choice((1, 2)), arg=rng.choice((0.3, 0.45)))
        meta["faults"] = ["slow replies for zone " + b]
        frs_a = list(sim.frags[a])
        t_over = rng.choice((0.05, 0.1, 0.2))
        for k, fr in enumerate(frs_a):
            loop.call_later(t_over + 0.03 * k, air.inject, rp_0404(a, k + 1, len(frs_a), fr).replace(GWY_ID, "18:111111"), 0.0, "045", False)
        big = rng.random() < 0.7

        def edit(a=a, big=big) -> None:
            sim.set(a, gen_schedule(rng, "zone", a, stress=big))
            ctx.count("bumps")

        loop.call_later(t_over + 0.03 * len(frs_a) + rng.choice((0.01, 0.05)), edit)
        meta["overheard"] = f"the whole schedule of zone {a} ({len(frs_a)} fragments) while our fetch is queued, then zone {a} is edited" + (" (more fragments)" if big else "")
        meta.pop("bump", None)
        sim.hooks.clear()
        ctx.count("directed.overheard_full_set_while_queued")
    faults.on = True

    async def call(z: str, op: str, outer: float | None) -> None:
        zone = tcs.zone_by_idx[z]
        rec: dict[str, Any] = {"zone": z, "op": op, "outer": outer, "call_vt": loop.time()}
        history.append(rec)
        ctx.count("calls")
        bound = 16.0 if op != "set" else 240.0
        if op == "set":
            wanted = gen_schedule(rng, "zone", z)
            rec["wanted"] = wanted["schedule"]
            coro = zone.set_schedule(wanted["schedule"])
        else:
            coro = zone.get_schedule(force_io=(op == "get-force"))
        try:
            rec["result"] = await asyncio.wait_for(coro, timeout=min(bound, outer) if outer else bound)
            rec["outcome"] = "returned"
            ctx.count("calls.returned")
        except asyncio.TimeoutError as err:  # library's own (15 s) or the caller's
            rec["outcome"], rec["error"] = "timeout", repr(err)[:120]
            ctx.count("calls.failed")
        except Exception as err:  # noqa: BLE001
            rec["outcome"], rec["error"], rec["where"] = f"raised {type(err).__name__}", repr(err)[:160], innermost_lib_frame(err)
            ctx.count("calls.failed")
            if not isinstance(err, (texc.ProtocolError, texc.RamsesException, rexc.RamsesException, TimeoutError, TypeError)):
                ctx.count("calls.failed.other_exception_class")
        rec["return_vt"] = loop.time()

    t0 = loop.time()
    tasks = [asyncio.ensure_future(call(z, op, outer)) for z, op, outer in ops]
    done, pending = await asyncio.wait(tasks, timeout=400.0)
    for t in pending:  # clause (1): a call that has not ended
        t.cancel()
    for rec in history:
        bound = (16.0 if rec["op"] != "set" else 240.0) + 1.0
        if rec["outer"]:
            bound = min(bound, rec["outer"] + 1.0)
        if "return_vt" not in rec or rec["return_vt"] - rec["call_vt"] > bound + 1e-6:
            ctx.violate(
                f"C18|ends|call-did-not-end-in-bound|{rec['op']}",
                "a schedule transfer did not end within its bound on the virtual clock",
                {"call": {k: v for k, v in rec.items() if k not in ("result", "wanted")}, "bound_s": bound, "episode": meta},
            )
    # clause (2)
    for rec in history:
        if rec.get("outcome") != "returned":
            continue
        z = rec["zone"]
        if rec["op"] == "set":
            now = sim.sched[z]["schedule"]
            latest_by_this_call = [s for (since, s) in sim.history[z] if rec["call_vt"] <= since <= rec["return_vt"]]
            if rec["wanted"] not in latest_by_this_call:
                ctx.violate(
                    "C18|set|returned-ok-but-controller-differs",
                    "set_schedule() returned normally but the controller never held exactly the requested schedule",
                    {"zone": z, "wanted_first_day": rec["wanted"][0], "controller_first_day": now[0] if isinstance(now, list) else now, "episode": meta},
                )
            continue
        lookback = 0.0 if rec["op"] == "get-force" else 180.0
        ok = sim.versions_during(z, rec["call_vt"] - lookback, rec["return_vt"])
        # 'as of a change counter read during the transfer': once the counter has been read in this call, only what
        # the controller held from that moment on can be the answer (an older version overheard before it cannot)
        reads = [t for t in sim.counter_reads if rec["call_vt"] <= t <= rec["return_vt"]]
        if reads:
            ctx.count("calls.judged_from_counter_read")
            ok = sim.versions_during(z, min(reads), rec["return_vt"])
        if rec["result"] is None:
            ctx.count("calls.returned_none")
            continue
        if rec["result"] not in ok:
            any_version = [s for _, s in sim.history[z]]
            kind = "stale-version" if rec["result"] in any_version else "mixed-or-foreign"
            ctx.violate(
                f"C18|get|{kind}|{rec['op']}",
                "get_schedule() returned a schedule that is none of the versions the controller held for that zone during the call" + (" (it is an older version)" if kind == "stale-version" else " (it is no version at all: stitched from two versions or from another zone's fragments)"),
                {"zone": z, "op": rec["op"], "returned_first_day": rec["result"][0] if rec["result"] else None, "acceptable_first_days": [s[0] for s in ok if isinstance(s, list)], "window": [round(rec["call_vt"], 3), round(rec["return_vt"], 3)], "episode": meta},
            )
    # clause (3): nothing left behind
    faults.on = False
    sim.hooks.clear()
    await asyncio.sleep(rng.choice((0.5, 5.0, 30.0)))
    await vloop.drain(loop, 8)
    outcomes = "+".join(sorted({r.get("outcome", "open").split(" ")[0] for r in history}))
    if tcs.zone_lock_idx is not None:
        ctx.violate(
            f"C18|leftover|transfer-lock-still-held|after-{outcomes}",
            "after every transfer had ended the system-wide schedule lock was still held",
            {"held_by_zone": tcs.zone_lock_idx, "calls": [{k: v for k, v in r.items() if k not in ("result", "wanted")} for r in history], "episode": meta},
        )
    probe_zones = [history[0]["zone"]] + [z for z in zones if z != history[0]["zone"]][:1]
    for z in probe_zones:
        ctx.count("aftermath.probes")
        t_probe = loop.time()
        try:
            got = await asyncio.wait_for(tcs.zone_by_idx[z].get_schedule(force_io=True), timeout=16.0)
            err = None
        except Exception as e:  # noqa: BLE001
            got, err = None, e
        want = sim.sched[z]["schedule"]
        if err is not None or got != want:
            same = "same-zone" if z == history[0]["zone"] else "other-zone"
            ctx.violate(
                f"C18|aftermath|follow-up-transfer-failed|{same}|after-{outcomes}|{type(err).__name__ if err else 'wrong-schedule'}",
                "on a clean link, a transfer after a finished (failed / abandoned / successful) one did not deliver the controller's schedule",
                {"zone": z, "error": repr(err)[:160] if err else None, "returned_is_an_older_version": (got in [v for _, v in sim.history[z]]) if err is None else None, "first_difference": next(((a, b) for a, b in zip(got or [], want) if a != b), None) if err is None else None, "took_s": round(loop.time() - t_probe, 2), "lock": tcs.zone_lock_idx, "calls": [{k: v for k, v in r.items() if k not in ("result", "wanted")} for r in history], "episode": meta},
            )
    for u in loop.unhandled:
        ctx.info.setdefault("loop_unhandled", []).append(f"{u['type']}@{u['where']}")
    ctx.ev()
    ctx.count("episodes")
    for r in history:
        ctx.seen(f"{r['op']}|{'+'.join(meta['faults']) or 'no-fault'}|{'bump' if 'bump' in meta else ''}|{'conc' if len(ops) > 1 else 'solo'}|{r.get('outcome', 'open').split(' ')[0]}")
    if trial < 2:
        ctx.sample({"episode": meta, "calls": [{k: (v if k not in ("result", "wanted") else "<schedule>") for k, v in r.items()} for r in history], "controller_versions": {z: len(h) for z, h in sim.history.items()}})
    await harness.stop_gateway(gwy)
    air.close()


async def sequence(loop: vloop.VirtualLoop, ctx, trial: int) -> None:
    """State carried from one transfer into the next, on a clean link: a zone is written, its schedule is then
    changed at the controller by somebody else and the library learns of it (by fetching it, or by overhearing the
    controller answer another requester), and then a schedule is written again - the one the library now holds,
    the one it wrote before, or a new one.  Every write that returns normally must have put exactly its schedule
    into the controller *by that call's own frames*, and every fetch must return what the controller holds."""
    import random

    rng = random.Random(f"C18seq/{ctx.seed}/{trial}")
    zones = ["01", "03", "0A"][: rng.choice((1, 2, 3))]
    air = airmod.Air(loop)
    sim = SimCtl(loop, air, rng, zones)
    schema = {CTL: {"zones": {z: {"class": "radiator_valve"} for z in zones}}, "main_tcs": CTL}
    gwy = await harness.start_port_gateway(loop, air, GWY_ID, config={"disable_discovery": True}, **schema)
    await asyncio.sleep(0.5)
    tcs = gwy.tcs
    z = rng.choice(zones)
    zone = tcs.zone_by_idx[z]
    meta: dict[str, Any] = {"seed": ctx.seed, "trial": trial, "family": "sequence", "zone": z, "steps": []}
    written: list[Any] = []

    async def step_set(which: str) -> None:
        if which == "held":  # what the controller (and, after a fetch / an overheard set, the library) holds now
            wanted = copy.deepcopy(sim.sched[z]["schedule"])
        elif which == "earlier" and written:
            wanted = copy.deepcopy(rng.choice(written))
        else:
            wanted = gen_schedule(rng, "zone", z)["schedule"]
        meta["steps"].append(f"set({which})")
        t0 = loop.time()
        n_writes = len(sim.history[z])
        ctx.count("sequence.sets")
        try:
            await asyncio.wait_for(zone.set_schedule(copy.deepcopy(wanted)), timeout=240.0)
        except Exception as err:  # noqa: BLE001
            ctx.violate(f"C18|sequence|set-failed-on-a-clean-link|{type(err).__name__}", "on a clean link a schedule write failed", {"error": repr(err)[:160], "episode": meta})
            return
        written.append(wanted)
        mine = [s for since, s in sim.history[z][n_writes:] if since >= t0]
        if wanted not in mine:
            ctx.violate(
                f"C18|sequence|set-returned-ok-but-not-written|{which}|{'nothing-written' if not mine else 'another-schedule-written'}",
                "set_schedule() returned normally but its own frames did not put exactly the requested schedule into the controller",
                {"which": which, "wanted_first_day": wanted[0], "controller_first_day": (sim.sched[z]["schedule"] or [None])[0], "writes_completed_during_call": len(mine), "episode": meta},
            )
        if zone.schedule != wanted:
            ctx.violate("C18|sequence|published-schedule-differs-from-written", "after a successful write the zone publishes another schedule than the one written", {"which": which, "episode": meta})

    async def step_edit() -> None:
        if rng.random() < 0.4:
            # the smallest edit a user makes: one setpoint, late in the week (the head of the compressed stream, and
            # with it the first fragment(s), may well stay byte for byte the same)
            sched = copy.deepcopy(sim.sched[z])
            day = sched["schedule"][rng.choice((-1, -1, -2, 3))]
            sp = day["switchpoints"][rng.choice((-1, -1, 0))]
            sp["heat_setpoint"] = round(sp["heat_setpoint"] + rng.choice((0.5, -0.5, 1.0)), 2) if 6 <= sp["heat_setpoint"] <= 34 else 20.0
            sim.set(z, sched)
            meta["steps"].append("controller-edit(one setpoint)")
            ctx.count("sequence.small_edits")
            if sim.frags[z][0] == ref_fragments({"zone_idx": z, "schedule": sim.history[z][-2][1]})[0]:
                ctx.count("sequence.small_edits_with_unchanged_first_fragment")
        else:
            sim.set(z, gen_schedule(rng, "zone", z, stress=rng.random() < 0.3))
            meta["steps"].append("controller-edit")
        ctx.count("bumps")
        await asyncio.sleep(rng.choice((0.1, 5.0, 200.0)))

    async def step_get(force: bool) -> None:
        meta["steps"].append("get-force" if force else "get")
        t0 = loop.time()
        ctx.count("sequence.gets")
        try:
            got = await asyncio.wait_for(zone.get_schedule(force_io=force), timeout=16.0)
        except Exception as err:  # noqa: BLE001
            ctx.violate(f"C18|sequence|get-failed-on-a-clean-link|{type(err).__name__}", "on a clean link a schedule fetch failed", {"error": repr(err)[:160], "episode": meta})
            return
        ok = sim.versions_during(z, t0 - (0.0 if force else 180.0), loop.time())
        if got not in ok:
            ctx.violate(f"C18|sequence|get|stale-or-mixed|{'get-force' if force else 'get'}", "in a sequence of transfers a fetch returned a schedule the controller did not hold during the call", {"episode": meta, "returned_first_day": got[0] if got else None})

    async def step_overhear() -> None:
        meta["steps"].append("overheard-full-set")
        frs = list(sim.frags[z])
        air.inject(f"RP --- {CTL} 18:111111 --:------ 0006 004 0005{sim.counter:04X}", faultable=False)
        for k, fr in enumerate(frs):
            air.inject(rp_0404(z, k + 1, len(frs), fr).replace(GWY_ID, "18:111111"), delay=0.05 + 0.04 * k, faultable=False)
        await asyncio.sleep(0.3 + 0.04 * len(frs))

    plan = rng.choice((
        ("set:new", "edit", "get-force", "set:held"),
        ("set:new", "edit", "overhear", "set:held"),
        ("get", "edit", "get-force", "set:held", "get-force"),
        ("set:new", "set:new", "edit", "get-force", "set:earlier"),
        ("set:new", "edit", "get", "set:held"),
        ("set:new", "set:held", "edit", "overhear", "set:earlier", "get-force"),
    ))
    for st in plan:
        if st.startswith("set:"):
            await step_set(st[4:])
        elif st == "edit":
            await step_edit()
        elif st == "overhear":
            await step_overhear()
        else:
            await step_get(st == "get-force")
        await asyncio.sleep(rng.choice((0.05, 1.0, 200.0)))
    ctx.ev()
    ctx.count("sequence.episodes")
    ctx.seen("sequence|" + ",".join(plan))
    if tcs.zone_lock_idx is not None:
        ctx.violate("C18|leftover|transfer-lock-still-held|after-sequence", "after a sequence of transfers the schedule lock was still held", {"episode": meta})
    await harness.stop_gateway(gwy)
    air.close()


def run(ctx) -> None:
    for k in range(6 if ctx.quick else 150):
        trial = ctx.shard + k * ctx.nshards
        harness.reset_transport_globals()

        async def gos(loop, trial=trial):
            with clocks_patched():
                await sequence(loop, ctx, trial)

        try:
            vloop.run(gos)
        except vloop.Starved as err:
            ctx.inconclusive_because(f"sequence starved the virtual clock: {err}")
    n = 60 if ctx.quick else 1500
    for k in range(n):
        trial = ctx.shard + k * ctx.nshards  # the systematic walk (trial < 60) is spread over the shards
        harness.reset_transport_globals()

        async def go(loop, trial=trial):
            with clocks_patched():
                await episode(loop, ctx, trial)

        try:
            vloop.run(go)
        except vloop.Starved as err:
            ctx.inconclusive_because(f"episode starved the virtual clock: {err}")


def replay(data: dict[str, Any]) -> int:
    """Re-run the episodes named by the witnesses (each is a function of seed and trial only)."""
    from .common import Ctx

    bad = 0
    seen = set()
    for w in data.get("witnesses", []):
        ep = w.get("episode") or {}
        if "trial" not in ep or (ep["seed"], ep["trial"]) in seen:
            continue
        seen.add((ep["seed"], ep["trial"]))
        ctx = Ctx(PID, "quick", ep["seed"], 0, 1)
        harness.reset_transport_globals()

        async def go(loop, ep=ep, ctx=ctx):
            with clocks_patched():
                await episode(loop, ctx, ep["trial"])

        vloop.run(go)
        for k, v in ctx.violations.items():
            print("REPRODUCED", k, "-", v["what"])
            print("   ", str(v["witnesses"][0])[:1500])
            bad += 1
        if not ctx.violations:
            print(f"episode seed={ep['seed']} trial={ep['trial']}: not reproduced")
    return bad
