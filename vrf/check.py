"""Entry point: python -m vrf.check <PID> [quick|thorough] [--replay path]"""

from __future__ import annotations

import importlib
import json
import sys

from . import common


def main(argv: list[str]) -> int:
    if not argv:
        print("usage: check <Cnn> [quick|thorough] [--replay <path>]")
        return 64
    pid = argv[0].upper()
    mod = importlib.import_module(f"vrf.{pid.lower()}")
    tier, seed = common.tier_and_seed(argv[1:])
    if "--shard" in argv:
        i = argv.index("--shard")
        return common.run_shard(mod, tier, seed, int(argv[i + 1]), int(argv[i + 2]), argv[i + 3])
    if "--replay" in argv:
        common.bind_repo()
        path = argv[argv.index("--replay") + 1]
        data = json.loads(open(path).read())
        if not hasattr(mod, "replay"):
            print(json.dumps(data, indent=1))
            print("(this check has no dedicated replayer; the witness above is the input)")
            return 0
        return int(bool(mod.replay(data)))
    return common.run_parent(mod, tier, seed)


if __name__ == "__main__":
    sys.exit(main(sys.argv[1:]))
