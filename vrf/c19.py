"""C19 — the fault-log view tracks the controller's log and never shows an entry twice.

Executable model = a simulated controller log (list, newest first, unique timestamps).  The real
FaultLog inside a real Evohome of a real (file-sourced) Gateway is fed, through the dispatcher,
with real I|0418 / RP|0418 packets built as text; after every step the public views are compared
with the model:

 (1) view strictly newest-first            (2) no entry at two positions
 (3) no entry the controller never sent    (4) faultlog/latest_event/latest_fault/active_faults never raise
 (5) after an uninterrupted read-through from index 0 the view equals the log over the range read
 (6) an unsolicited announcement of a new entry pushes the known entries down by one

A second part drives the real get_faultlog() of a port Gateway against the simulated controller
(null-entry replies, start/limit variations).
"""

from __future__ import annotations

import asyncio
from typing import Any

from . import air as airmod, harness, vloop
from .boundary import clocks_patched
from .mon import innermost_lib_frame

PID = "C19"
LEVEL = "exploration"
SHARDS = {"quick": 16, "thorough": 16}
WALL_LIMIT = {"quick": 600, "thorough": 3600}
RULE = (
    "histories of a simulated controller log (up to 64 deep): new faults/restores with delivered or lost "
    "announcements, single-entry replies at arbitrary positions, replies beyond the end, complete and partial "
    "read-throughs, interleaved; plus real get_faultlog() runs (start/limit variations, null-entry replies). "
    "Distinct = (step-kind sequence class, log depth class, lost-announcement count class, outcome)."
)
ASSUMPTIONS = [
    "entries have unique, increasing timestamps (as a controller's do); equality is demanded only after a read-through with nothing changing meanwhile",
    "an RP null entry carries no index on the wire (the library documents it cannot place it), so feed-only read-throughs end at the last real entry",
    "the push-down clause is judged when the view before the announcement was itself well-formed (clauses 1-2)",
]
REQUIRED = {"histories": 50, "steps": 500, "readthroughs": 30, "announcements": 100, "get_faultlog.runs": 2, "sequence.episodes": 20, "sequence.clean_gets": 20, "sequence.failed_gets": 5, "sequence.announcements": 20}

CTL, GWY = "01:145038", "18:006402"
NULL = "000000B0000000000000000000007FFFFF7000000000"


def pack_ts(y: int, mo: int, d: int, h: int, mi: int, s: int) -> str:
    v = (mo << 36) | (d << 31) | ((y % 100) << 24) | (h << 19) | (mi << 13) | (s << 7) | 0x7F
    return f"{v:012X}"


def entry_payload(e: dict[str, Any], idx: int) -> str:
    return f"00{e['state']}{idx:02X}B0{e['type']}{e['domain']}{e['cls']}0000{e['ts_hex']}FFFF7000{e['dev']}"


class SimLog:
    def __init__(self, rng) -> None:
        self.rng = rng
        self.entries: list[dict[str, Any]] = []  # newest first
        self.clock = [24, 1, 1, 0, 0, 0]
        self.serial = 0

    def _tick(self) -> tuple[str, str]:
        self.serial += 1
        total = self.serial * self.rng.choice((7, 61, 3601)) + self.serial  # strictly increasing
        total = self.serial * 3607
        d, rem = divmod(total, 86400)
        h, rem = divmod(rem, 3600)
        mi, s = divmod(rem, 60)
        mo, day = 1 + (d // 28) % 12, 1 + d % 28
        y = 24 + d // (28 * 12)
        ts = f"{y:02d}-{mo:02d}-{day:02d}T{h:02d}:{mi:02d}:{s:02d}"
        return ts, pack_ts(y, mo, day, h, mi, s)

    def new(self) -> dict[str, Any]:
        ts, hx = self._tick()
        e = {
            "ts": ts,
            "ts_hex": hx,
            "state": self.rng.choice(("00", "40", "C0")),
            "type": self.rng.choice(("04", "06", "0A", "01", "03")),
            "domain": self.rng.choice(("00", "01", "05", "FC", "FA")),
            "cls": self.rng.choice(("04", "01", "05", "06", "00")),
            "dev": self.rng.choice(("100001", "100002", "340003", "1C0004", "000000")),
        }
        self.entries.insert(0, e)
        del self.entries[64:]
        return e


def pushdown_key(before: dict[int, str], after: dict[int, str], new_ts: str) -> str:
    """Mechanism key for a failed push-down: the recorded finding is the gap-at-the-top case only."""
    if new_ts not in after.values():
        return "C19|announcement|no-effect"  # the announced entry is not in the view at all
    if before and 0 not in before:
        return "C19|announcement|known-entries-not-pushed-down"  # known entries did not start at index 0 (recorded)
    return "C19|announcement|pushed-down-wrongly"


def view_check(ctx, fl, sim: SimLog, sent: dict[str, Any], history: list[str], where: str) -> dict[int, Any] | None:
    """Clauses 1-4; returns the view (or None if reading it raised)."""
    try:
        view = dict(fl.faultlog)
        _ = fl.latest_event, fl.latest_fault, fl.active_faults
    except Exception as err:  # noqa: BLE001
        ctx.violate(
            f"C19|view-raises|{type(err).__name__}|{innermost_lib_frame(err)}",
            "reading the fault-log view raised",
            {"history": history[-14:], "error": repr(err)[:160]},
        )
        return None
    idxs = sorted(view)
    stamps = [view[i].timestamp for i in idxs]
    if any(a <= b for a, b in zip(stamps, stamps[1:])):
        dup = len(set(stamps)) != len(stamps)
        ctx.violate(
            "C19|view|entry-at-two-positions" if dup else "C19|view|not-newest-first",
            "the fault-log view shows the same entry at two positions" if dup else "the fault-log view is not ordered newest-first",
            {"history": history[-14:], "view": {i: view[i].timestamp for i in idxs}, "controller": [e["ts"] for e in sim.entries[:8]], "at": where},
        )
    for i in idxs:
        e = view[i]
        if e.timestamp not in sent or sent[e.timestamp] != e:
            ctx.violate(
                "C19|view|invented-entry",
                "the fault-log view holds an entry the controller never reported (or reports it altered)",
                {"history": history[-14:], "idx": i, "entry": str(e)},
            )
    return view


async def feed_history(loop: vloop.VirtualLoop, ctx, trial: int) -> None:
    from ramses_rf.system.faultlog import FaultLogEntry
    from ramses_tx.packet import Packet

    rng = ctx.rng
    sim = SimLog(rng)
    gwy = harness.file_gateway([], config={"disable_discovery": True})
    await asyncio.wait_for(gwy.start(), timeout=30)
    t = [0]
    sent: dict[str, Any] = {}
    history: list[str] = []

    async def deliver(frame: str) -> None:
        t[0] += 1
        pkt = Packet.from_port(vloop.EPOCH.replace(microsecond=(t[0] % 999) * 1000, second=(t[0] // 999) % 60), f"045 {frame}")
        gwy._protocol.pkt_received(pkt)
        await vloop.drain(loop, 5)

    def remember(e: dict[str, Any], payload: str) -> None:
        pkt = Packet.from_port(vloop.EPOCH, f"045 RP --- {CTL} {GWY} --:------ 0418 022 {payload}")
        sent[e["ts"]] = FaultLogEntry.from_pkt(pkt)

    async def reply(k: int) -> None:
        if k < len(sim.entries):
            p = entry_payload(sim.entries[k], k)
            remember(sim.entries[k], p)
        else:
            p = NULL
        await deliver(f"RP --- {CTL} {GWY} --:------ 0418 022 {p}")

    # the controller exists: a sync cycle first
    await deliver(f" I --- {CTL} --:------ {CTL} 1F09 003 FF073F")
    tcs = gwy.tcs
    if tcs is None:
        ctx.inconclusive_because("no TCS was created for the simulated controller")
        await gwy.stop()
        return
    fl = tcs._faultlog
    # self-check of the harness' timestamp packing against the library's reading of it
    for _ in range(rng.choice((rng.randint(0, 6), rng.randint(0, 6), rng.randint(0, 6), 62, 63, 64))):
        sim.new()  # a log that existed before the gateway started listening (sometimes a full one)
    if trial == 0 and ctx.shard == 0:  # the recorded finding's witness: always re-observed
        while len(sim.entries) < 5:
            sim.new()
        await reply(2)
        before = view_check(ctx, fl, sim, sent, history, "witness")
        e = sim.new()
        p = entry_payload(e, 0)
        remember(e, p)
        history += ["reply idx=2", f"announce {e['ts']}"]
        await deliver(f" I --- {CTL} --:------ {CTL} 0418 022 {p}")
        after = dict(fl.faultlog)
        if before is not None and {i: v.timestamp for i, v in after.items()} != {0: e["ts"], 3: before[2].timestamp}:
            ctx.violate(
                "C19|announcement|known-entries-not-pushed-down",
                "an unsolicited announcement of a new entry did not push the known entries down by one",
                {"history": history, "before": {i: v.timestamp for i, v in before.items()}, "after": {i: v.timestamp for i, v in after.items()}},
            )
    n_steps = rng.randint(8, 30 if ctx.quick else 60)
    lost = 0
    kinds = []
    for _ in range(n_steps):
        kind = rng.choices(("new+announce", "new-lost", "reply", "readthrough", "partial-read", "reply-beyond"), (5, 2, 4, 2, 2, 1))[0]
        kinds.append(kind[0])
        ctx.count("steps")
        if kind.startswith("new"):
            before = view_check(ctx, fl, sim, sent, history, "before-announce")
            e = sim.new()
            if kind == "new+announce":
                p = entry_payload(e, 0)
                remember(e, p)
                history.append(f"announce {e['ts']}")
                await deliver(f" I --- {CTL} --:------ {CTL} 0418 022 {p}")
                ctx.count("announcements")
                after = view_check(ctx, fl, sim, sent, history, "after-announce")
                if before is not None and after is not None:
                    b_idx = sorted(before)
                    b_st = [before[i].timestamp for i in b_idx]
                    well_formed = all(a > b for a, b in zip(b_st, b_st[1:])) and all(s < e["ts"] for s in b_st)
                    if well_formed:
                        want = {0: e["ts"], **{i + 1: before[i].timestamp for i in b_idx if i + 1 <= 0x3F}}
                        have = {i: v.timestamp for i, v in after.items()}
                        if have != want:
                            ctx.violate(
                                pushdown_key({i: before[i].timestamp for i in b_idx}, have, e["ts"]),
                                "an unsolicited announcement of a new entry did not push the known entries down by one",
                                {"history": history[-14:], "before": {i: before[i].timestamp for i in b_idx}, "after": have, "expected": want},
                            )
            else:
                lost += 1
                history.append(f"new (announcement lost) {e['ts']}")
        elif kind == "reply":
            if not sim.entries:
                continue
            k = rng.randrange(min(len(sim.entries), 64))  # incl. the last slot, 0x3F
            history.append(f"reply idx={k} {sim.entries[k]['ts']}")
            await reply(k)
            view_check(ctx, fl, sim, sent, history, "after-reply")
        elif kind == "reply-beyond":
            k = len(sim.entries) + rng.randint(0, 2)
            if k > 63:
                continue
            history.append(f"reply idx={k} (null)")
            await reply(k)
            view_check(ctx, fl, sim, sent, history, "after-null-reply")
        else:
            if not sim.entries:
                continue
            m = len(sim.entries) if kind == "readthrough" else rng.randint(1, len(sim.entries))
            m = min(m, 64)
            history.append(f"read-through 0..{m - 1}" + (" +null" if kind == "readthrough" else ""))
            for k in range(m):
                await reply(k)
            if kind == "readthrough" and len(sim.entries) < 64:
                await reply(len(sim.entries))
            ctx.count("readthroughs")
            view = view_check(ctx, fl, sim, sent, history, "after-readthrough")
            if view is not None:
                have = {i: view[i].timestamp for i in sorted(view) if i < m}
                want = {i: sim.entries[i]["ts"] for i in range(m)}
                if have != want:
                    ctx.violate(
                        "C19|readthrough|view-differs-from-controller-log",
                        "after the log was read through from the top (nothing changing meanwhile) the view differs from the controller's log over the range read",
                        {"history": history[-14:], "view": have, "controller": want},
                    )
    ctx.ev()
    ctx.count("histories")
    ctx.seen(f"{''.join(kinds)[:10]}|{min(len(sim.entries) // 8, 8)}|{min(lost, 3)}")
    if trial < 1:
        ctx.sample({"history": history[:12], "final_view": {i: e.timestamp for i, e in fl.faultlog.items()}, "controller": [e["ts"] for e in sim.entries[:10]]})
    await gwy.stop()


def saved_state_agrees(ctx, gwy, meta: dict[str, Any]) -> None:
    """What would be saved now is what the gateway holds: each line of the saved state is the frame of the live
    packet with that stamp (the fault-log view after a restart is rebuilt from these lines)."""
    try:
        _, pkts = gwy.get_state(include_expired=True)
    except Exception:  # noqa: BLE001  (C13's subject)
        return
    live = [m for d in gwy.devices for m in d._msg_db]
    for system in gwy.systems:
        live += list(system._msgs.values()) + [m for z in system.zones for m in z._msgs.values()]
    for m in live:
        line = pkts.get(m._pkt.dtm.isoformat(timespec="microseconds"))
        if line is None or m.code != "0418":
            continue
        ctx.count("saved.fault_log_lines_compared")
        if not line.startswith("... " + str(m._pkt)):
            ctx.violate(
                "C19|saved-state|line-is-not-the-held-packet",
                "the saved state holds another frame than the fault-log packet the gateway holds under that stamp (a restart files the entry elsewhere)",
                {"saved": line, "held": str(m._pkt), **meta},
            )


async def real_get_faultlog(loop: vloop.VirtualLoop, ctx, trial: int) -> None:
    """The real get_faultlog() of a port gateway against the simulated controller."""
    rng = ctx.rng
    sim = SimLog(rng)
    for _ in range(rng.choice((0, 1, 3, 6, 7, 20, 63, 64))):
        sim.new()
    air = airmod.Air(loop)

    def controller(frame: str) -> None:
        p = frame.split(" ")
        if frame[:2] == "RQ" and p[-3] == "0418" and p[-5] == CTL:
            k = int(p[-1][4:6], 16)
            body = entry_payload(sim.entries[k], k) if k < len(sim.entries) else NULL
            air.inject(f"RP --- {CTL} {p[-6]} --:------ 0418 022 {body}", delay=0.03)

    air.add_listener(controller)
    with clocks_patched():
        gwy = await harness.start_port_gateway(loop, air, GWY, config={"disable_discovery": True})
        air.inject(f" I --- {CTL} --:------ {CTL} 1F09 003 FF073F")
        await asyncio.sleep(0.5)
        tcs = gwy.tcs
        if tcs is None:
            ctx.inconclusive_because("no TCS on the port gateway")
            await harness.stop_gateway(gwy)
            return
        start = rng.choice((0, 0, 0, 1, 3))
        limit = rng.choice((None, 6, 1, 10, 64))
        ctx.count("get_faultlog.runs")
        try:
            result = await asyncio.wait_for(tcs.get_faultlog(start=start, limit=limit), timeout=200)
        except Exception as err:  # noqa: BLE001
            ctx.violate(
                f"C19|get_faultlog|raises|{type(err).__name__}|{innermost_lib_frame(err)}",
                "get_faultlog() raised against a responsive controller",
                {"start": start, "limit": limit, "log_depth": len(sim.entries), "error": repr(err)[:200]},
            )
            result = None
        await vloop.drain(loop)
        ctx.ev()
        ctx.seen(f"get|{start}|{limit}|{min(len(sim.entries), 8)}")
        if result is not None:
            n = 6 if limit is None else limit
            rng_read = range(start, min(start + n, 64, len(sim.entries)))
            have = {i: e.timestamp for i, e in result.items() if i in rng_read}
            want = {i: sim.entries[i]["ts"] for i in rng_read}
            if start == 0 and have != want:
                ctx.violate(
                    "C19|get_faultlog|view-differs-from-controller-log",
                    "after get_faultlog() read the log from the top the returned view differs from the controller's log over the range read",
                    {"start": start, "limit": limit, "view": have, "controller": want},
                )
            stamps = [result[i].timestamp for i in sorted(result)]
            if any(a <= b for a, b in zip(stamps, stamps[1:])):
                ctx.violate("C19|get_faultlog|not-newest-first", "get_faultlog() returned a view that is not strictly newest-first", {"view": stamps})
        saved_state_agrees(ctx, gwy, {"start": start, "limit": limit, "log_depth": len(sim.entries)})
        for u in loop.unhandled:
            ctx.info.setdefault("loop_unhandled", []).append(f"{u['type']}@{u['where']}")
        await harness.stop_gateway(gwy)
    air.close()


async def real_sequence(loop: vloop.VirtualLoop, ctx, trial: int) -> None:
    """Several real get_faultlog() calls on one port gateway, with what happens between them on a real system:
    new faults whose announcement is heard or lost, a read-through that fails part-way (one index never
    answered), an announcement arriving while a read-through is in flight.  Judged after each step:
    well-formedness always; a read from the top with nothing changing meanwhile equals the controller's log
    over the range read (whatever was believed before); a delivered announcement pushes the view down by one -
    also after a failed read."""
    import random

    rng = random.Random(f"C19seq/{ctx.seed}/{trial}")
    sim = SimLog(rng)
    for _ in range(rng.choice((0, 2, 3, 5, 8, 20))):
        sim.new()
    other_reader: set[int] = set()  # log indexes at which another reader's reply is heard instead of ours (once)

    def slow_echo(kind: str, frame: str, target: str) -> list[float]:
        # the stick is slow to echo a request made while another reader is being answered: the controller's reply to
        # that reader is heard while our request still awaits its echo (not only while it awaits its reply)
        if kind == "echo" and frame[:2] == "RQ" and " 0418 " in frame and int(frame.split(" ")[-1][4:6], 16) in other_reader and trial % 2:
            return [0.06]
        return airmod.no_faults(kind, frame, target)

    air = airmod.Air(loop, slow_echo)
    mute: set[int] = set()  # log indexes whose request goes unanswered
    answered = [0]
    on_answer: list[Any] = []
    history: list[str] = []
    ep = {"seed": ctx.seed, "trial": trial, "part": "sequence"}

    def controller(frame: str) -> None:
        p = frame.split(" ")
        if frame[:2] == "RQ" and p[-3] == "0418" and p[-5] == CTL:
            k = int(p[-1][4:6], 16)
            if k in mute:
                return
            if k in other_reader and sim.entries:
                # another reader of the same log (an RFG100) is answered just now - for another entry - and our
                # own reply is lost this once: our request is simply asked again
                other_reader.discard(k)
                if rng.random() < 0.5:
                    j = (k + 2) % len(sim.entries)
                    air.inject(f"RP --- {CTL} 30:111111 --:------ 0418 022 {entry_payload(sim.entries[j], j)}", delay=0.03)
                    ctx.count("sequence.foreign_replies")
                    return
                # ... or the other reader asked beyond the end of the log: the controller's 'no such entry' reply to
                # it is on the air just before our own (proper) reply
                air.inject(f"RP --- {CTL} 30:111111 --:------ 0418 022 {NULL}", delay=0.02)
                ctx.count("sequence.foreign_null_replies")
            body = entry_payload(sim.entries[k], k) if k < len(sim.entries) else NULL
            air.inject(f"RP --- {CTL} {p[-6]} --:------ 0418 022 {body}", delay=0.03)
            answered[0] += 1
            for fn in list(on_answer):
                fn()

    def stamps(view: dict[int, Any]) -> dict[int, str]:
        return {i: view[i].timestamp for i in sorted(view)}

    def well_formed(tcs, where: str) -> dict[int, str] | None:
        try:
            v = stamps(dict(tcs._faultlog.faultlog))
            _ = tcs.latest_event, tcs.latest_fault, tcs.active_faults
        except Exception as err:  # noqa: BLE001
            ctx.violate(f"C19|view-raises|{type(err).__name__}|{innermost_lib_frame(err)}", "reading the fault-log view raised", {"history": history[-12:], "error": repr(err)[:160], "episode": ep})
            return None
        st = list(v.values())
        known = {e["ts"] for e in sim.entries}
        if any(a <= b for a, b in zip(st, st[1:])):
            dup = len(set(st)) != len(st)
            ctx.violate("C19|view|entry-at-two-positions" if dup else "C19|view|not-newest-first", "the fault-log view shows the same entry at two positions" if dup else "the fault-log view is not ordered newest-first", {"history": history[-12:], "view": v, "at": where, "episode": ep})
        if any(x not in known for x in st):
            ctx.violate("C19|view|invented-entry", "the fault-log view holds an entry the controller never reported", {"history": history[-12:], "view": v, "episode": ep})
        return v

    async def announce(tcs, e: dict[str, Any]) -> None:
        air.inject(f" I --- {CTL} --:------ {CTL} 0418 022 {entry_payload(e, 0)}", faultable=False)
        await asyncio.sleep(0.2)
        await vloop.drain(loop)

    air.add_listener(controller)
    with clocks_patched():
        gwy = await harness.start_port_gateway(loop, air, GWY, config={"disable_discovery": True})
        air.inject(f" I --- {CTL} --:------ {CTL} 1F09 003 FF073F")
        await asyncio.sleep(0.5)
        tcs = gwy.tcs
        if tcs is None:
            ctx.inconclusive_because("no TCS on the port gateway")
            await harness.stop_gateway(gwy)
            return
        kinds = []
        for _ in range(rng.randint(4, 9)):
            kind = rng.choices(("get", "get-fail", "new+announce", "new-lost", "announce-during-get"), (4, 2, 3, 2, 1))[0]
            kinds.append(kind[:5])
            ctx.count("sequence.steps")
            if kind in ("get", "get-fail", "announce-during-get"):
                limit = rng.choice((None, 3, 6, 10, 64))
                n = 6 if limit is None else limit
                span = min(n, len(sim.entries) + 1, 64)
                mute.clear()
                on_answer.clear()
                changed = [False]
                if kind == "get-fail" and span >= 1:
                    mute.add(rng.randrange(span))
                other_reader.clear()
                if kind == "get" and len(sim.entries) >= 3 and rng.random() < 0.4:
                    other_reader.add(rng.randrange(min(span, len(sim.entries))))
                if kind == "announce-during-get":
                    after_n = answered[0] + rng.randint(1, max(1, span - 1))

                    def mid() -> None:
                        if answered[0] == after_n and not changed[0]:
                            changed[0] = True
                            e = sim.new()
                            history.append(f"(announcement of {e['ts']} during the read)")
                            air.inject(f" I --- {CTL} --:------ {CTL} 0418 022 {entry_payload(e, 0)}", delay=0.01, faultable=False)

                    on_answer.append(mid)
                history.append(f"{kind} limit={limit} muted={sorted(mute)} depth={len(sim.entries)}")
                try:
                    result = await asyncio.wait_for(tcs.get_faultlog(start=0, limit=limit), timeout=400)
                except Exception as err:  # noqa: BLE001
                    ctx.violate(f"C19|get_faultlog|raises|{type(err).__name__}|{innermost_lib_frame(err)}", "get_faultlog() raised", {"history": history[-12:], "error": repr(err)[:200], "episode": ep})
                    result = None
                mute.clear()
                on_answer.clear()
                await vloop.drain(loop)
                ctx.count("sequence.gets")
                saved_state_agrees(ctx, gwy, {"history": history[-8:], "episode": ep})
                view = well_formed(tcs, f"after {kind}")
                if kind == "get" and view is not None:
                    ctx.count("sequence.clean_gets")
                    if result is None:
                        ctx.violate("C19|get_faultlog|failed-against-responsive-controller", "get_faultlog() returned nothing although every request was answered", {"history": history[-12:], "episode": ep})
                    m = min(n, len(sim.entries), 64)
                    have = {i: t for i, t in view.items() if i < m}
                    want = {i: sim.entries[i]["ts"] for i in range(m)}
                    if have != want:
                        ctx.violate(
                            "C19|get_faultlog|view-differs-from-controller-log",
                            "after get_faultlog() read the log from the top (nothing changing meanwhile) the view differs from the controller's log over the range read",
                            {"history": history[-12:], "view": view, "controller": want, "episode": ep},
                        )
                elif kind == "get-fail":
                    ctx.count("sequence.failed_gets")
            else:
                before = well_formed(tcs, "before new entry")
                e = sim.new()
                if kind == "new+announce":
                    history.append(f"announce {e['ts']}")
                    await announce(tcs, e)
                    ctx.count("sequence.announcements")
                    after = well_formed(tcs, "after announcement")
                    if before is not None and after is not None:
                        b = list(before.values())
                        if all(x > y for x, y in zip(b, b[1:])) and all(x < e["ts"] for x in b):
                            want = {0: e["ts"], **{i + 1: t for i, t in before.items() if i + 1 <= 0x3F}}
                            if after != want:
                                ctx.violate(
                                    pushdown_key(before, after, e["ts"]),
                                    "an unsolicited announcement of a new entry did not push the known entries down by one",
                                    {"history": history[-12:], "before": before, "after": after, "expected": want, "episode": ep},
                                )
                else:
                    history.append(f"new (announcement lost) {e['ts']}")
        ctx.ev()
        ctx.count("sequence.episodes")
        ctx.seen("seq|" + ",".join(kinds)[:40])
        for u in loop.unhandled:
            ctx.info.setdefault("loop_unhandled", []).append(f"{u['type']}@{u['where']}")
        await harness.stop_gateway(gwy)
    air.close()


def run(ctx) -> None:
    # harness self-check: the library must read our packed timestamps as intended
    from ramses_tx.helpers import hex_to_dts

    if hex_to_dts(pack_ts(24, 3, 1, 12, 30, 15)) != "24-03-01T12:30:15":
        ctx.inconclusive_because("harness timestamp packing disagrees with the library's decoder")
        return
    n = 30 if ctx.quick else 2500
    for trial in range(n):
        vloop.run(feed_history, ctx, trial)
    for trial in range(2 if ctx.quick else 40):
        try:
            vloop.run(real_get_faultlog, ctx, trial)
        except vloop.Starved as err:
            ctx.inconclusive_because(f"get_faultlog scenario starved: {err}")
    for k in range(6 if ctx.quick else 120):
        harness.reset_transport_globals()
        try:
            vloop.run(real_sequence, ctx, ctx.shard + k * ctx.nshards)
        except vloop.Starved as err:
            ctx.inconclusive_because(f"get_faultlog sequence starved: {err}")


def replay(data: dict[str, Any]) -> int:
    """Re-run the get_faultlog() sequence episodes the witnesses came from (other witnesses carry their history)."""
    from .common import Ctx

    bad, seen = 0, set()
    for w in data.get("witnesses", []):
        ep = w.get("episode") if isinstance(w, dict) else None
        if not ep or ep.get("part") != "sequence":
            print("witness is its own input (history of packets fed):", str(w)[:600])
            continue
        if (ep["seed"], ep["trial"]) in seen:
            continue
        seen.add((ep["seed"], ep["trial"]))
        ctx = Ctx(PID, "thorough", ep["seed"], 0, 1)
        harness.reset_transport_globals()
        vloop.run(real_sequence, ctx, ep["trial"])
        for k, v in ctx.violations.items():
            print("REPRODUCED", k, "-", v["what"])
            print("   ", str(v["witnesses"][0])[:1000])
            bad += 1
        if not ctx.violations:
            print(f"episode {ep}: not reproduced")
    return bad
