"""C17 — schedules survive the wire format: encode / fragment / decode is the identity.

 (a) fragz_to_full_sched(full_sched_to_fragz(s)) == s for validator-accepted schedules;
 (b) every fragment is non-empty, fits one frame (<= 41 bytes), and the W|0404 command built
     from it by the public constructor is accepted by the library's own decoder; likewise the
     RP|0404 a controller would send for it;
 (c) the decoder also inverts an independent (harness-side) encoder of the same record layout;
 (d) a real gateway fed the RP|0404 fragment packets of one or two zones, in any order and
     with repeats, reports for each zone the schedule that was encoded or none - never another.
"""

from __future__ import annotations

import asyncio
import copy
import itertools
import struct
import zlib
from typing import Any

from . import harness, vloop
from .mon import innermost_lib_frame

PID = "C17"
LEVEL = "exploration"
SHARDS = {"quick": 16, "thorough": 16}
WALL_LIMIT = {"quick": 600, "thorough": 3600}
RULE = (
    "schedules generated under the library's own validators: 7 days in order, 1..N strictly ordered "
    "switchpoints per day (N up to 6 typical, stress to 20), all 288 times of day, setpoints 5.00..35.00 on "
    "the 0.01 grid (each of the 3,001 values used at least once across shards in thorough), DHW on/off, "
    "zones 00-0B and HW; reassembly histories = all permutations for <=4 fragments, seeded permutations "
    "with duplications beyond, one- and two-zone interleavings, library-encoded and reference-encoded "
    "fragments. Distinct = (kind, switchpoints/day class, fragment count, blob length mod 41 class) for "
    "schedules and (fragment count, zones, order class, encoder) for histories."
)
ASSUMPTIONS = [
    "statement's input class: seven days 0..6 in order, ordered switchpoints (the validator itself also admits fewer days)",
    "the reference encoder packs the documented 20-byte record (idx@4, day@8, minutes@12 LE16, value@16 LE16) and uses zlib level 9",
    "reassembly is observed through the public zone.schedule view of a real (file-sourced) Gateway",
]
REQUIRED = {"roundtrip": 300, "fragments": 300, "w_cmds": 300, "ref_encoder": 100, "reassembly": 30, "reassembly.two_zones": 5, "reassembly.decoded": 20}

CTL = "01:145038"
GWY = "18:006402"


def gen_schedule(rng, kind: str, idx: str, stress: bool = False, setpoint_base: int | None = None) -> dict[str, Any]:
    days = []
    style = rng.choice(("same", "weekday", "random"))
    proto = None
    for d in range(7):
        if style == "same" and proto is not None:
            sps = copy.deepcopy(proto)
        elif style == "weekday" and proto is not None and d < 5:
            sps = copy.deepcopy(proto)
        else:
            n = rng.randint(1, 20 if stress else 6)
            times = sorted(rng.sample(range(288), n))
            sps = []
            for t in times:
                tod = f"{t * 5 // 60:02d}:{t * 5 % 60:02d}"
                if kind == "dhw":
                    sps.append({"time_of_day": tod, "enabled": rng.random() < 0.5})
                else:
                    if setpoint_base is not None and rng.random() < 0.5:
                        k = setpoint_base
                    else:
                        k = rng.choice((500, 3500, rng.randint(500, 3500), 50 * rng.randint(10, 70)))
                    sps.append({"time_of_day": tod, "heat_setpoint": k / 100})
            proto = proto or sps
        days.append({"day_of_week": d, "switchpoints": sps})
    return {"zone_idx": idx, "schedule": days}


def ref_fragments(s: dict[str, Any]) -> list[str]:
    """Independent encoder: the 20-byte record layout, zlib level 9, 41-byte fragments."""
    blob = bytearray()
    idx = int(s["zone_idx"], 16)
    for day in s["schedule"]:
        for sp in day["switchpoints"]:
            rec = bytearray(20)
            rec[4] = idx
            rec[8] = day["day_of_week"]
            h, m = sp["time_of_day"].split(":")
            struct.pack_into("<H", rec, 12, int(h) * 60 + int(m))
            val = round(sp["heat_setpoint"] * 100) if "heat_setpoint" in sp else int(sp["enabled"])
            struct.pack_into("<H", rec, 16, val)
            blob += rec
    hexed = zlib.compress(bytes(blob), 9).hex().upper()
    return [hexed[i : i + 82] for i in range(0, len(hexed), 82)]


def rp_frame(idx: str, num: int, cnt: int, frag: str, dhw: bool) -> str:
    header = "00230008" if dhw else f"{idx}200008"
    payload = f"{header}{len(frag) // 2:02X}{num:02X}{cnt:02X}{frag}"
    return f"RP --- {CTL} {GWY} --:------ 0404 {len(payload) // 2:03d} {payload}"


def part_codec(ctx) -> None:
    from ramses_rf.system import schedule as sch
    from ramses_tx import exceptions as exc
    from ramses_tx.command import Command
    from ramses_tx.message import Message
    from ramses_tx.packet import Packet

    rng = ctx.rng
    n = 220 if ctx.quick else 12000
    setpoints = list(range(500 + ctx.shard, 3501, ctx.nshards))  # the whole 0.01 grid across shards
    for i in range(n):
        kind = "dhw" if i % 5 == 4 else "zone"
        idx = "00" if kind == "dhw" else f"{rng.randrange(12):02X}"
        base = setpoints[i % len(setpoints)] if kind == "zone" else None
        s = gen_schedule(rng, kind, idx, stress=(i % 11 == 0), setpoint_base=base)
        ctx.ev()
        # the library's validator must accept what we generate (else it is outside the quantifier)
        try:
            if kind == "dhw":
                sch.SCH_SCHEDULE_DHW_OUTER({**s, "zone_idx": "HW"})
            else:
                sch.SCH_SCHEDULE_ZON_OUTER(s)
        except Exception as err:  # noqa: BLE001
            ctx.inconclusive_because(f"generator produced a schedule the validator rejects: {err}")
            return
        # (a) round trip
        try:
            frags = sch.full_sched_to_fragz(copy.deepcopy(s))
            back = sch.fragz_to_full_sched(frags)
        except Exception as err:  # noqa: BLE001
            ctx.violate(
                f"C17|codec|raises|{type(err).__name__}|{innermost_lib_frame(err)}",
                "encoding/decoding a validator-accepted schedule raises",
                {"schedule": s, "error": repr(err)[:200]},
            )
            continue
        ctx.count("roundtrip")
        nsp = sum(len(d["switchpoints"]) for d in s["schedule"])
        bloblen = sum(len(f) for f in frags) // 2
        ctx.seen(f"sched|{kind}|{min(nsp // 7, 8)}|{len(frags)}|{'x41' if bloblen % 41 == 0 else bloblen % 41 // 10}")
        if back != s:
            diff = next(
                ((a, b) for da, db in zip(s["schedule"], back["schedule"]) for a, b in zip(da["switchpoints"], db["switchpoints"]) if a != b),
                None,
            )
            ctx.violate(
                "C17|codec|roundtrip-differs",
                "a validator-accepted schedule converted to fragments and back is not the same schedule",
                {"first_difference": diff, "zone_idx": (s["zone_idx"], back.get("zone_idx")), "fragments": len(frags)},
            )
        # (b) fragments fit a frame and give decodable W and RP frames
        for num, frag in enumerate(frags, 1):
            ctx.count("fragments")
            if not frag or len(frag) > 82 or len(frag) % 2:
                ctx.violate(
                    "C17|fragment|bad-size",
                    "a fragment is empty, odd-sized or longer than the 41 bytes one frame can carry",
                    {"frag_number": num, "of": len(frags), "hex_chars": len(frag), "blob_bytes": bloblen},
                )
                continue
            try:
                cmd = Command.set_schedule_fragment(CTL, "HW" if kind == "dhw" else idx, num, len(frags), frag)
            except Exception as err:  # noqa: BLE001
                ctx.violate(
                    f"C17|w-cmd|constructor-raises|{type(err).__name__}",
                    "the write command for a fragment cannot be built",
                    {"frag_number": num, "of": len(frags), "error": repr(err)[:160]},
                )
                continue
            ctx.count("w_cmds")
            if cmd._len > 48:
                ctx.violate("C17|w-cmd|too-long", "the write command payload exceeds 48 bytes", str(cmd))
            for label, line in (("w-cmd", f"000 {cmd}"), ("rp-pkt", "045 " + rp_frame(idx, num, len(frags), frag, kind == "dhw"))):
                try:
                    m = Message(Packet.from_port(vloop.EPOCH, line))
                    if label == "rp-pkt" and (m.payload.get("fragment") != frag or m.payload.get("frag_number") != num or m.payload.get("total_frags") != len(frags)):
                        ctx.violate("C17|rp-pkt|fields-differ", "the decoded RP|0404 does not carry the fragment / numbers it was built from", {"line": line, "payload": m.payload})
                except (exc.PacketInvalid, ValueError) as err:
                    ctx.violate(
                        f"C17|{label}|rejected-by-decoder",
                        "a frame built from a schedule fragment is rejected by the library's own decoder",
                        {"frame": line, "frag_number": num, "of": len(frags), "error": str(err)[:160]},
                    )
        # (c) the decoder inverts an independent encoder too
        try:
            back2 = sch.fragz_to_full_sched(ref_fragments(s))
            ctx.count("ref_encoder")
            if back2 != s:
                ctx.violate("C17|decoder|reference-stream-differs", "the decoder does not reproduce a schedule encoded by an independent encoder of the same layout", {"zone_idx": s["zone_idx"]})
        except Exception as err:  # noqa: BLE001
            ctx.violate(f"C17|decoder|raises-on-reference-stream|{type(err).__name__}", "decoder raises on an independently encoded schedule", repr(err)[:160])
        if i < 2:
            ctx.sample({"schedule_day0": s["schedule"][0], "zone_idx": idx, "fragments": [len(f) // 2 for f in frags]})


async def reassembly(loop: vloop.VirtualLoop, ctx, trial: int) -> None:
    from ramses_rf.system import schedule as sch

    rng = ctx.rng
    two = trial % 3 == 2
    zones = []
    for z in range(2 if two else 1):
        kind = "dhw" if (trial + z) % 7 == 6 else "zone"
        idx = "00" if kind == "dhw" else f"{(1 + z * 3 + trial) % 12:02X}"
        small = rng.random() < 0.35  # one-fragment schedules (the shared EMPTY_PAYLOAD_SET hazard)
        s = gen_schedule(rng, kind, idx)
        if small:
            sp = s["schedule"][0]["switchpoints"][:1]
            for d in s["schedule"]:
                d["switchpoints"] = copy.deepcopy(sp)
        enc = "ref" if rng.random() < 0.3 else "lib"
        frags = ref_fragments(s) if enc == "ref" else sch.full_sched_to_fragz(copy.deepcopy(s))
        zones.append({"kind": kind, "idx": idx, "s": s, "frags": frags, "enc": enc})
    if two and zones[0]["idx"] == zones[1]["idx"] and zones[0]["kind"] == zones[1]["kind"]:
        zones.pop()
    # history of RP packets
    hist: list[tuple[int, int]] = []
    for zi, z in enumerate(zones):
        n = len(z["frags"])
        if n <= 4 and rng.random() < 0.6:
            perms = list(itertools.permutations(range(1, n + 1)))
            order = list(perms[trial % len(perms)])
            cls = "perm"
        else:
            order = list(range(1, n + 1))
            rng.shuffle(order)
            cls = "shuffle"
        if rng.random() < 0.6:
            for _ in range(rng.randint(1, 3)):
                order.insert(rng.randrange(len(order) + 1), rng.randint(1, n))
            cls += "+dup"
        z["order_class"] = cls
        hist += [(zi, k) for k in order]
    if len(zones) == 2:
        a = [h for h in hist if h[0] == 0]
        b = [h for h in hist if h[0] == 1]
        hist = []
        while a or b:
            src = a if (a and (not b or rng.random() < 0.5)) else b
            hist.append(src.pop(0))

    gwy = harness.file_gateway([], config={"disable_discovery": True})
    await asyncio.wait_for(gwy.start(), timeout=30)
    from ramses_tx.packet import Packet

    t = 0
    lines = []
    for zi, z in enumerate(zones):  # the controller first tells which zones / DHW exist (RP|000C)
        t += 1
        if z["kind"] == "dhw":
            body = "000D001C0001"  # DHW sensor 07:000001
        else:
            body = f"{z['idx']}080010{zi:02X}01"  # a radiator valve 04:...
        pkt = Packet.from_port(vloop.EPOCH.replace(microsecond=t * 1000), f"045 RP --- {CTL} {GWY} --:------ 000C 006 {body}")
        gwy._protocol.pkt_received(pkt)
        await vloop.drain(loop, 4)
    for zi, k in hist:
        z = zones[zi]
        t += 1
        line = "045 " + rp_frame(z["idx"], k, len(z["frags"]), z["frags"][k - 1], z["kind"] == "dhw")
        lines.append(line[4:])
        pkt = Packet.from_port(vloop.EPOCH.replace(microsecond=t * 1000), line)
        gwy._protocol.pkt_received(pkt)
        await vloop.drain(loop, 4)
    await vloop.drain(loop)
    ctx.ev()
    ctx.count("reassembly")
    if len(zones) == 2:
        ctx.count("reassembly.two_zones")
    tcs = gwy.tcs
    for z in zones:
        ctx.seen(f"hist|{len(z['frags'])}|{len(zones)}|{z['order_class']}|{z['enc']}|{z['kind']}")
        want = z["s"]["schedule"]
        zone = None
        if tcs is not None:
            zone = tcs.dhw if z["kind"] == "dhw" else tcs.zone_by_idx.get(z["idx"])
        got = zone.schedule if zone is not None else None
        if got is None:
            ctx.count("reassembly.none")
            continue
        ctx.count("reassembly.decoded")
        if got != want:
            ctx.violate(
                "C17|reassembly|different-schedule",
                "after receiving the fragment packets (in some order, with repeats) the zone reports a schedule other than the one that was encoded",
                {"zone": z["idx"], "kind": z["kind"], "history": lines[:40], "fragments": len(z["frags"]), "zones": len(zones)},
            )
    # second phase: the schedule is edited on the controller (usually: same number of fragments) and the
    # fragments of the new one are overheard in some order with repeats - the zone must end with the new
    # schedule or none, never with another one (not the old one either: all of the new one was received)
    if tcs is not None and trial % 2 == 0:
        t += 1
        pkt = Packet.from_port(vloop.EPOCH.replace(microsecond=t * 1000), f"045 RP --- {CTL} {GWY} --:------ 0006 004 00050{0x136 + trial % 7:03X}")
        gwy._protocol.pkt_received(pkt)
        await vloop.drain(loop, 4)
        for z in zones:
            s2 = copy.deepcopy(z["s"])
            for d in s2["schedule"]:
                for sp in d["switchpoints"]:
                    if "heat_setpoint" in sp:
                        sp["heat_setpoint"] = round(5.0 + (round(sp["heat_setpoint"] * 100) + 137) % 3000 / 100, 2)
                    else:
                        sp["enabled"] = not sp["enabled"]
            frags2 = ref_fragments(s2) if z["enc"] == "ref" else sch.full_sched_to_fragz(copy.deepcopy(s2))
            order = list(range(1, len(frags2) + 1))
            rng.shuffle(order)
            if rng.random() < 0.5:
                order.insert(rng.randrange(len(order) + 1), rng.randint(1, len(frags2)))
            lines2 = []
            for k in order:
                t += 1
                line = "045 " + rp_frame(z["idx"], k, len(frags2), frags2[k - 1], z["kind"] == "dhw")
                lines2.append(line)
                gwy._protocol.pkt_received(Packet.from_port(vloop.EPOCH.replace(microsecond=t * 1000), line))
                await vloop.drain(loop, 4)
            await vloop.drain(loop)
            zone = tcs.dhw if z["kind"] == "dhw" else tcs.zone_by_idx.get(z["idx"])
            got = zone.schedule if zone is not None else None
            ctx.count("reassembly.second")
            ctx.seen(f"hist2|{len(z['frags'])}->{len(frags2)}|{z['kind']}|{'none' if got is None else 'new' if got == s2['schedule'] else 'other'}")
            if got is not None and got != s2["schedule"]:
                stale = got == z["s"]["schedule"]
                ctx.violate(
                    "C17|reassembly|stale-schedule-after-new-fragments" if stale else "C17|reassembly|different-schedule",
                    "after all fragment packets of an edited schedule were received the zone still reports the earlier schedule" if stale else "after receiving the fragment packets of an edited schedule the zone reports a schedule that is neither",
                    {"zone": z["idx"], "kind": z["kind"], "fragments_before": len(z["frags"]), "fragments_after": len(frags2), "order": order, "trial": trial,
                     "first_phase": [ln for ln in lines if " 0404 " in ln][:40], "second_phase": lines2},
                )
    for u in loop.unhandled:
        ctx.info.setdefault("loop_unhandled", []).append(f"{u['type']}@{u['where']}")
    await gwy.stop()
    if trial < 1:
        ctx.sample({"history": [ln[:70] for ln in lines[:6]], "zones": [(z["idx"], len(z["frags"]), z["enc"]) for z in zones]})


def run(ctx) -> None:
    part_codec(ctx)
    n = 12 if ctx.quick else 700
    for trial in range(n):
        vloop.run(reassembly, ctx, trial * ctx.nshards + ctx.shard)
