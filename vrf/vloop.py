"""Virtual-time asyncio event loop (DESIGN §2.1).

time() only advances when the loop is otherwise idle, by exactly the distance to the next
timer.  Equal-deadline timers therefore fire in one iteration.  An idle hook is called at
each quiescent point (nothing runnable, just before the clock jumps).
"""

from __future__ import annotations

import asyncio
import datetime as _datetime
from collections.abc import Callable
from typing import Any

EPOCH = _datetime.datetime(2024, 3, 1, 12, 0, 0)


class Starved(Exception):
    """The harness spun without letting virtual time advance (inconclusive, never a verdict)."""


class VirtualLoop(asyncio.SelectorEventLoop):
    def __init__(self) -> None:
        super().__init__()
        self._vt = 0.0
        self.idle_hooks: list[Callable[[], None]] = []
        self.busy_iterations = 0  # consecutive iterations without the clock moving
        self.max_busy = 2_000_000
        # Virtual time normally stands still while the loop is busy: a frame read from the port reaches its last
        # handler, several call_soon hops later, at the very instant it was read.  On a real host each hop takes a
        # little time, so a frame read just before a deadline can reach its handler in the iteration in which that
        # deadline's timer fires.  A scenario that wants such coincidences gives busy iterations a duration.
        self.busy_cost = 0.0
        self.jumps = 0
        self.coincidences = 0  # iterations in which >1 timer became due at once
        self.unhandled: list[dict[str, Any]] = []
        self.set_exception_handler(self._record_exception)
        inner = self._selector.select

        def select(timeout: float | None = None):  # type: ignore[no-untyped-def]
            events = inner(0)
            if events or timeout == 0:
                self._vt += self.busy_cost  # (0 unless a scenario gives loop iterations a duration)
                self.busy_iterations += 1
                if self.busy_iterations > self.max_busy:
                    raise Starved("virtual clock starved by a busy loop")
                return events
            self.busy_iterations = 0
            for hook in self.idle_hooks:
                hook()
            if self._ready:  # a hook scheduled something: run it before time moves
                return events
            if timeout is None:
                # nothing scheduled, nothing readable: only the harness can make progress
                if self._stopping:
                    return events
                raise Starved("event loop has nothing left to do (deadlock in scenario?)")
            self._vt += timeout
            if self._scheduled:
                when = self._scheduled[0]._when
                if abs(when - self._vt) < 1e-9:
                    self._vt = when
                due = sum(1 for h in self._scheduled[:8] if h._when <= self._vt and not h._cancelled)
                if due > 1:
                    self.coincidences += 1
            self.jumps += 1
            return events

        self._selector.select = select  # type: ignore[method-assign]

    def time(self) -> float:
        return self._vt

    # -- helpers for harness code ---------------------------------------------------
    def now_dt(self) -> _datetime.datetime:
        return EPOCH + _datetime.timedelta(seconds=self._vt)

    def _record_exception(self, loop: asyncio.AbstractEventLoop, context: dict[str, Any]) -> None:
        exc = context.get("exception")
        where = ""
        if exc is not None and exc.__traceback__ is not None:
            tb = exc.__traceback__
            frames = []
            while tb is not None:
                code = tb.tb_frame.f_code
                if "/ramses_" in code.co_filename:
                    frames.append(f"{code.co_filename.rsplit('/', 1)[-1]}:{code.co_name}")
                tb = tb.tb_next
            where = frames[-1] if frames else ""
        self.unhandled.append(
            {
                "message": context.get("message", ""),
                "type": type(exc).__name__ if exc else None,
                "text": str(exc)[:200] if exc else "",
                "where": where,
                "vt": round(self._vt, 6),
            }
        )


def make_virtual_datetime(loop_getter: Callable[[], VirtualLoop | None]) -> type:
    """A datetime subclass whose now() follows the virtual clock of the current loop."""

    last: list[_datetime.datetime] = [EPOCH - _datetime.timedelta(days=1)]
    tick = _datetime.timedelta(microseconds=1)

    class VDateTime(_datetime.datetime):
        @classmethod
        def now(cls, tz=None):  # type: ignore[no-untyped-def,override]
            loop = loop_getter()
            base = EPOCH + _datetime.timedelta(seconds=loop._vt if loop else 0.0)
            # like a real clock, two readings are never equal: within one virtual instant each
            # reading is 1 us later than the previous one (two lines of one serial read get distinct
            # timestamps on a real machine, too)
            if loop is not None and getattr(loop, "_vdt_owner", None) is not last:
                loop._vdt_owner = last  # a new loop restarts the virtual epoch
                last[0] = EPOCH - _datetime.timedelta(days=1)
            if base <= last[0]:
                base = last[0] + tick
            last[0] = base
            return cls(
                base.year, base.month, base.day, base.hour, base.minute, base.second, base.microsecond
            )

    return VDateTime


_current: list[VirtualLoop | None] = [None]


def current() -> VirtualLoop | None:
    return _current[0]


def run(coro_fn: Callable[..., Any], *args: Any, max_busy: int | None = None) -> tuple[Any, VirtualLoop]:
    """Run `coro_fn(loop, *args)` to completion on a fresh virtual loop."""
    loop = VirtualLoop()
    if max_busy:
        loop.max_busy = max_busy
    _current[0] = loop
    asyncio.set_event_loop(loop)
    stuck = False
    try:
        result = loop.run_until_complete(coro_fn(loop, *args))
        return result, loop
    except KeyboardInterrupt:
        stuck = True  # wall-clock alarm: the loop thread may still hold a library lock
        raise
    finally:
        try:
            pending = [] if stuck else [t for t in asyncio.all_tasks(loop) if not t.done()]
            for t in pending:
                t.cancel()
            if pending:
                try:
                    loop.run_until_complete(asyncio.gather(*pending, return_exceptions=True))
                except (Starved, RuntimeError):
                    pass
        finally:
            asyncio.set_event_loop(None)
            _current[0] = None
            loop.close()


async def drain(loop: VirtualLoop, rounds: int = 12) -> None:
    """Let every already-scheduled callback chain (call_soon hops) run; no time passes."""
    for _ in range(rounds):
        await asyncio.sleep(0)


async def settle(loop: VirtualLoop, seconds: float = 0.0) -> None:
    """Advance virtual time by `seconds` (runs everything due) then drain."""
    if seconds > 0:
        await asyncio.sleep(seconds)
    await drain(loop)
