"""QoS episode runner shared by C07, C08, C09 (DESIGN §3 C07/C08/C09).

The real PortProtocol + ProtocolContext run on the virtual loop against a scripted,
duck-typed transport that calls the same protocol callbacks the real transports call.
One episode = callers + per-transmission arrival scripts + transport events + a quiet
period + a probe send.  The runner records three boundary histories:

* client history  : call / return of every protocol.send_cmd()         (C07)
* write ledger    : every hand-off to transport.write_frame()          (C08)
* quiescent state : FSM state, open calls, loop exception handler, log (C09)

Episodes are plain dicts (JSON) so a violating one is its own replay file.
"""

from __future__ import annotations

import asyncio
from typing import Any

from . import vloop
from .mon import LogCapture, innermost_lib_frame

GWY_ID = "18:006402"
HGI = "18:000730"
EPS = 0.001

# request/reply families; {i} is the caller's private context byte, {dev} its private device
KINDS: dict[str, dict[str, Any]] = {
    "RQ30C9": {"verb": "RQ", "code": "30C9", "payload": "{i}", "reply": ("RP", "30C9", "{i}07D0")},
    "RQ2309": {"verb": "RQ", "code": "2309", "payload": "{i}", "reply": ("RP", "2309", "{i}07D0")},
    "RQ000A": {"verb": "RQ", "code": "000A", "payload": "{i}", "reply": ("RP", "000A", "{i}1001F40DAC")},
    "RQ0004": {"verb": "RQ", "code": "0004", "payload": "{i}00", "reply": ("RP", "0004", "{i}00" + "41" * 20)},
    "RQ0006": {"verb": "RQ", "code": "0006", "payload": "00", "reply": ("RP", "0006", "0005{i}{i}")},
    "RQ0418": {"verb": "RQ", "code": "0418", "payload": "0000{i}", "reply": ("RP", "0418", "004000B0040004000000CB955F71FFFFFF70001283B3".replace("0040", "00{i}", 1)[:0] + "0040{i}B0040004000000CB955F71FFFFFF70001283B3")},
    "W2309": {"verb": " W", "code": "2309", "payload": "{i}07D0", "reply": (" I", "2309", "{i}07D0")},
    "W1F41": {"verb": " W", "code": "1F41", "payload": "{i}01FFFFFF"[:0] + "0001FFFFFF", "reply": (" I", "1F41", "0001FFFFFF")},
    "I30C9": {"verb": " I", "code": "30C9", "payload": "0003{i}", "reply": None},
    "RP30C9": {"verb": "RP", "code": "30C9", "payload": "{i}0333", "reply": None},
}
MUST_QOS_CODES = ("0006", "0404", "0418", "1FC9")


def caller_frames(c: dict[str, Any]) -> dict[str, Any]:
    """The frame a caller sends, its echo and its proper reply (built as text)."""
    if "frame" in c:  # explicit frames (C06)
        frame = c["frame"]
        echo = frame[:7] + GWY_ID + frame[16:] if frame[7:16] == HGI else frame
        p = frame.split(" ")
        return {"frame": frame, "echo": echo, "reply": c.get("reply"), "dev": p[-5] if p[-5][:2] != "--" else p[-4], "src": frame[7:16]}
    k = KINDS[c["kind"]]
    i = f"{c['idx']:02X}"
    dev = c.get("dev") or f"01:{145000 + c['idx']:06d}"
    src = c.get("src") or HGI
    payload = k["payload"].replace("{i}", i)
    if k["verb"] in (" I", "RP") and c["kind"] in ("I30C9",):
        frame = f"{k['verb']} --- {src} --:------ {src} {k['code']} {len(payload) // 2:03d} {payload}"
    else:
        frame = f"{k['verb']} --- {src} {dev} --:------ {k['code']} {len(payload) // 2:03d} {payload}"
    echo = frame.replace(HGI, GWY_ID)
    reply = None
    if k["reply"]:
        rv, rc, rp = k["reply"]
        rp = rp.replace("{i}", i)
        back = GWY_ID if src == HGI else src
        reply = f"{rv} --- {dev} {back} --:------ {rc} {len(rp) // 2:03d} {rp}"
    return {"frame": frame, "echo": echo, "reply": reply, "dev": dev, "src": src}


class ScriptedTransport:
    """Duck-typed transport: records writes, injects faults, schedules arrivals."""

    def __init__(self, rig: "Rig") -> None:
        self.rig = rig
        self._closing = False
        self._extra = {"active_gwy": GWY_ID, "is_evofw3": True}

    def get_extra_info(self, name: str, default: Any = None) -> Any:
        return self._extra.get(name, default)

    def is_closing(self) -> bool:
        return self._closing

    def _dt_now(self):  # type: ignore[no-untyped-def]
        return self.rig.loop.now_dt()

    def pause_reading(self) -> None:
        pass

    def resume_reading(self) -> None:
        pass

    def close(self) -> None:
        if not self._closing:
            self._closing = True
            self.rig.loop.call_soon(self.rig.protocol.connection_lost, None)

    async def write_frame(self, frame: str, disable_tx_limits: bool = False) -> None:
        await self.rig.on_write(self, frame)


class Rig:
    def __init__(self, loop: vloop.VirtualLoop, ep: dict[str, Any]) -> None:
        from ramses_tx.protocol import PortProtocol

        self.loop, self.ep = loop, ep
        self.seq = 0
        self.events: list[dict[str, Any]] = []  # everything, in global order
        self.msgs: list[str] = []
        self.protocol = PortProtocol(lambda m: self.msgs.append(str(m._pkt)), disable_qos=ep.get("disable_qos"))
        self.ctx = self.protocol._context
        self.transport = ScriptedTransport(self)
        self.frames: dict[str, int] = {}  # frame text -> (first) caller number
        self.owner: dict[int, int] = {}  # id(Command) -> caller number (identical frames stay distinct)
        self.active: int = -1  # caller whose command was dequeued last
        self.in_probe = False  # the aftermath probe is exempt from scripted faults
        self.attempts: dict[Any, int] = {}
        self._frame_of: dict[int, str] = {}
        self.n_writes = 0
        self.state_path: list[str] = []
        self.connected = False
        self._wrap_internals()

    # -- observation taps (time markers only; no oracle reads library state) --------
    def _wrap_internals(self) -> None:
        ctx = self.ctx
        orig_set_state = ctx.set_state

        def set_state(state_class, *a: Any, **k: Any):  # type: ignore[no-untyped-def]
            self.state_path.append(state_class.__name__[:5] + ("!" if k.get("expired") else "") + ("t" if k.get("timed_out") else ""))
            ret = orig_set_state(state_class, *a, **k)
            pend = getattr(self, "pending_at_timeout", None)
            if k.get("timed_out") and pend is not None:
                self.pending_at_timeout = None
                self._echo_then_reply(pend[0], pend[1], pend[2], True)
            return ret

        ctx.set_state = set_state  # type: ignore[method-assign]
        orig_get = ctx._que.get_nowait

        def get_nowait():  # type: ignore[no-untyped-def]
            entry = orig_get()
            who = self.owner.get(id(entry[2]), -1)
            if not entry[4].done():
                self.active = who
                self.inst = self.seq + 1  # the dequeue event about to be logged names this command instance
                # the moment the caller is given its result or error: a done-callback on the caller's own
                # future runs before anything scheduled after the future was completed (the awaiting
                # coroutine itself only resumes a few loop iterations later)
                entry[4].add_done_callback(lambda f, who=who: self.log("answered", caller=who))
            self.log("dequeue", frame=str(entry[2]), caller=who, fut_done=entry[4].done())
            return entry

        ctx._que.get_nowait = get_nowait  # type: ignore[method-assign]
        orig_inner = self.protocol._send_cmd

        async def _send_cmd(cmd, *a: Any, **k: Any):  # type: ignore[no-untyped-def]
            task = asyncio.current_task()
            who = task.get_name() if task else "?"
            self.log("inner_call", frame=str(cmd), task=who)
            try:
                return await orig_inner(cmd, *a, **k)
            finally:
                self.log("inner_return", frame=str(cmd), task=who)

        self.protocol._send_cmd = _send_cmd  # type: ignore[method-assign]

    def log(self, kind: str, **kw: Any) -> dict[str, Any]:
        self.seq += 1
        ev = {"seq": self.seq, "vt": round(self.loop.time(), 6), "ev": kind, **kw}
        self.events.append(ev)
        return ev

    # -- transport side -------------------------------------------------------------
    def connect(self) -> None:
        self.transport = ScriptedTransport(self)
        self.protocol.connection_made(self.transport, ramses=True)
        self.connected = True
        self.log("connected")

    def disconnect(self, err: Exception | None = None) -> None:
        self.transport._closing = True
        self.connected = False
        self.log("disconnected")
        self.protocol.connection_lost(err)

    def deliver(self, frame: str, tag: str) -> None:
        from ramses_tx.packet import Packet

        if not self.connected:
            return
        pkt = Packet.from_port(self.loop.now_dt(), f"000 {frame}")
        self.log("deliver", frame=frame, tag=tag)
        self.protocol.pkt_received(pkt)

    def _at(self, delay: float, fn, *args: Any, late_armed: bool = False) -> None:  # type: ignore[no-untyped-def]
        delay = max(0.0, delay)
        if late_armed and delay > 0:
            self.loop.call_later(delay / 2, lambda: self.loop.call_later(delay - delay / 2, fn, *args))
        else:
            self.loop.call_later(delay, fn, *args)

    def _delay(self, spec: Any, timer: float) -> float | None:
        if spec is None:
            return None
        kind, val = spec[0], spec[1]
        if kind == "at_timeout":  # delivered from the set_state tap, in the iteration the echo timer expires
            return None
        return val if kind == "abs" else timer + val

    async def on_write(self, transport: ScriptedTransport, frame: str) -> None:
        from ramses_tx import exceptions as exc

        self.n_writes += 1
        who = self.frames.get(frame, -1)
        if who >= 0 and self.active >= 0 and self.active < len(self.ep["callers"]) + 1:
            mine = self._frame_of.get(self.active)
            if mine == frame:
                who = self.active
        key = who if who >= 0 else frame
        k = self.attempts.get(key, 0)
        self.attempts[key] = k + 1
        self.log("write", frame=frame, caller=who, attempt=k + 1, m=self.ctx._multiplier, inst=getattr(self, "inst", 0))
        if transport._closing or not self.connected:
            raise exc.TransportError("Transport is closing or has closed")
        if self.n_writes in self.ep.get("fail_writes", []) and not self.in_probe:
            if self.ep.get("fail_write_kind") == "os":  # a failure the transport did not turn into its own error class
                raise OSError(5, "injected write failure (I/O error)")
            raise exc.TransportError("injected write failure")
        for ev in self.ep.get("events", []):
            if ev.get("after_write") == self.n_writes and not self.in_probe:
                self._at(ev.get("delay", 0.0), self._do_event, ev)
        echo = frame.replace(HGI, GWY_ID) if frame[7:16] == HGI else frame
        if who < 0:  # impersonation notice (or probe): scripted separately
            spec = self.ep.get("notice_echo", ["abs", 0.004])
            d = self._delay(spec, 0.5 * 2**self.ctx._multiplier)
            if d is not None:
                self._at(d, self.deliver, echo, "notice-echo")
            return
        c = self.ep["callers"][who]
        script = c.get("script") or [{}]
        step = script[min(k, len(script) - 1)]
        t_echo = 0.5 * 2**self.ctx._multiplier
        d_echo = self._delay(step.get("echo", ["abs", 0.004]), t_echo)
        fr = caller_frames(c)
        reply_spec = step.get("reply", ["abs", 0.02])
        self.pending_at_timeout = None
        if (step.get("echo") or [None])[0] == "at_timeout":
            # The serial read callback and the echo timer fall into the same loop iteration: the packet is
            # queued (call_soon_threadsafe) before the timer's deferred retransmit, so the protocol sees the
            # echo after the state was marked timed-out and before the retransmission is attempted.
            self.pending_at_timeout = (echo, fr["reply"], reply_spec)
            for off, f in step.get("foreign", []):
                self._at(off, self.deliver, f, "foreign")
            return
        if d_echo is not None:
            for n in range(1 + step.get("echo_dup", 0)):
                self._at(d_echo + n * 0.003, self._echo_then_reply, echo, fr["reply"], reply_spec, n == 0, late_armed=step.get("late", False))
        elif fr["reply"] and reply_spec is not None and reply_spec[0] == "abs":
            for n in range(1 + step.get("reply_dup", 0)):
                self._at(reply_spec[1] + n * 0.003, self.deliver, fr["reply"], "reply-no-echo")
        for off, f in step.get("foreign", []):
            self._at(off, self.deliver, f, "foreign")

    def _echo_then_reply(self, echo: str, reply: str | None, reply_spec: Any, first: bool) -> None:
        t_rply = 0.5 * 2**self.ctx._multiplier
        if first and reply and reply_spec is not None:
            if reply_spec[0] == "before":  # reply overtakes the echo
                self.deliver(reply, "reply-before-echo")
            else:
                d = self._delay(reply_spec, t_rply)
                self._at(d, self.deliver, reply, "reply")  # type: ignore[arg-type]
        self.deliver(echo, "echo")

    def _do_event(self, ev: dict[str, Any]) -> None:
        kind = ev["do"]
        if kind == "disconnect" and self.connected:
            self.disconnect(None)
        elif kind == "disconnect_err" and self.connected:
            from ramses_tx import exceptions as exc

            self.disconnect(exc.TransportError("injected link failure"))
        elif kind == "disconnect_serial" and self.connected:  # what the real serial transport reports
            from serial import SerialException  # type: ignore[import-untyped]

            self.disconnect(SerialException("injected: device reports readiness to read but returned no data"))
        elif kind == "reconnect" and not self.connected:
            self.connect()
        elif kind == "pause":
            self.log("pause")
            self.protocol.pause_writing()
        elif kind == "resume":
            self.log("resume")
            self.protocol.resume_writing()
        elif kind == "deliver":
            self.deliver(ev["frame"], "scripted")
        elif kind == "cancel_caller":  # the application gives up on a call (its own wait_for(), a shutdown)
            tasks = getattr(self, "tasks", [])
            if ev["target"] < len(tasks) and not tasks[ev["target"]].done():
                self.log("cancel", caller=ev["target"])
                tasks[ev["target"]].cancel()

    # -- client side ----------------------------------------------------------------
    async def caller(self, n: int, c: dict[str, Any]) -> None:
        from ramses_tx.command import Command
        from ramses_tx.const import Priority
        from ramses_tx.typing import QosParams

        await asyncio.sleep(c.get("at", 0.0))
        fr = caller_frames(c)
        cmd = Command(fr["frame"])
        self.frames.setdefault(fr["frame"], n)
        self.owner[id(cmd)] = n
        self._frame_of[n] = fr["frame"]
        self._keep = getattr(self, "_keep", []) + [cmd]  # keep ids unique for the episode
        qos = QosParams(max_retries=c.get("max_retries", 3), timeout=c.get("timeout", 20), wait_for_reply=c.get("wait_for_reply"))
        ev = self.log("call", caller=n, frame=fr["frame"])
        for tev in self.ep.get("events", []):
            # a transport event in the very loop iteration of the call: queued now, it runs after send_cmd() has
            # put the command in the buffer and before the buffer check that send_cmd() schedules
            if tev.get("with_call") == n:
                if tev.get("after_check"):
                    # ... or one iteration later, behind that buffer check: queued here it runs after the check has
                    # moved the sender to WantEcho and before the deferred half of that transition (timer, write) runs -
                    # where a serial read that became ready during the check's iteration lands
                    self.loop.call_soon(lambda tev=tev: self.loop.call_soon(self._do_event, tev))
                else:
                    self.loop.call_soon(self._do_event, tev)
        try:
            rep = {"num_repeats": c["num_repeats"]} if c.get("num_repeats") else {}
            pkt = await self.protocol.send_cmd(cmd, priority=Priority(c.get("priority", 0)), qos=qos, **rep)
        except asyncio.CancelledError:
            self.log("return", caller=n, cancelled=True)
            raise
        except BaseException as err:  # noqa: BLE001 - recorded, judged by the oracle
            self.log("return", caller=n, exc=type(err).__name__, exc_mro=[k.__name__ for k in type(err).__mro__], text=str(err)[:160], where=innermost_lib_frame(err))
        else:
            self.log("return", caller=n, result=str(pkt))
        ev["returned"] = True


async def _episode(loop: vloop.VirtualLoop, ep: dict[str, Any]) -> dict[str, Any]:
    from ramses_tx import protocol_fsm as fsm

    rig = Rig(loop, ep)
    with LogCapture() as cap:
        rig.connect()
        await asyncio.sleep(0)
        for ev in ep.get("events", []):
            if "at" in ev:
                rig._at(ev["at"], rig._do_event, ev)
        tasks = [loop.create_task(rig.caller(n, c), name=f"caller-{n}") for n, c in enumerate(ep["callers"])]
        rig.tasks = tasks  # type: ignore[attr-defined]
        horizon = ep.get("horizon", 60.0)
        done, pending = await asyncio.wait(tasks, timeout=horizon)
        open_calls = len(pending)
        # quiet period, then the quiescent observation
        await asyncio.sleep(ep.get("quiet", 30.0))
        await vloop.drain(loop)
        ctx = rig.ctx
        quiescent = {
            "state": type(ctx.state).__name__,
            "connected": rig.connected,
            "fut_pending": ctx._fut is not None and not ctx._fut.done(),
            "cmd_set": ctx._cmd is not None,
            "queue": sum(1 for entry in list(ctx._que.queue) if not entry[4].done()),
            "queue_dead_entries": sum(1 for entry in list(ctx._que.queue) if entry[4].done()),
            "open_calls": open_calls + sum(1 for t in tasks if not t.done()),
        }
        try:
            quiescent["is_sending"] = ctx.is_sending
        except AssertionError as err:
            quiescent["is_sending"] = f"AssertionError: {err}"
        rig.log("quiescent", **quiescent)
        n_unhandled_before_probe = len(loop.unhandled)
        # aftermath: reconnect if needed (the way a user does: same protocol, new transport)
        probe: dict[str, Any] = {}
        if not rig.connected:
            try:
                rig.connect()
                probe["reconnect"] = "ok"
            except BaseException as err:  # noqa: BLE001
                probe["reconnect"] = f"{type(err).__name__}: {str(err)[:120]} @ {innermost_lib_frame(err)}"
            await vloop.drain(loop)
        if rig.protocol._pause_writing:
            rig.protocol.resume_writing()
        if ep.get("no_probe"):
            for t in tasks:
                if not t.done():
                    t.cancel()
            await asyncio.sleep(0.01)
            return {
                "events": rig.events, "quiescent": quiescent, "probe": {"returned": True, "result": "skipped"},
                "unhandled": list(loop.unhandled), "unhandled_before_probe": n_unhandled_before_probe,
                "coding_errors_logged": cap.coding_errors[:5], "log_tracebacks": dict(cap.tracebacks),
                "state_path": rig.state_path, "coincidences": loop.coincidences, "end_vt": loop.time(),
            }
        rig.in_probe = True
        pc = {"kind": "RQ30C9", "idx": 0x0B, "dev": "01:199999", "timeout": 10, "script": [{}]}
        pt = loop.create_task(rig.caller(len(ep["callers"]), pc), name=f"caller-{len(ep['callers'])}")
        ep_callers = ep["callers"]
        ep["callers"] = ep_callers + [pc]
        await asyncio.wait([pt], timeout=30)
        ep["callers"] = ep_callers
        last = [e for e in rig.events if e["ev"] == "return" and e.get("caller") == len(ep_callers)]
        probe["returned"] = bool(last)
        if last:
            probe["result"] = last[-1].get("result")
            probe["exc"] = last[-1].get("exc")
            probe["text"] = last[-1].get("text")
        for t in tasks + [pt]:
            if not t.done():
                t.cancel()
        await asyncio.sleep(1)
    return {
        "events": rig.events,
        "quiescent": quiescent,
        "probe": probe,
        "unhandled": list(loop.unhandled),
        "unhandled_before_probe": n_unhandled_before_probe,
        "coding_errors_logged": cap.coding_errors[:5],
        "log_tracebacks": dict(cap.tracebacks),
        "state_path": rig.state_path,
        "coincidences": loop.coincidences,
        "end_vt": loop.time(),
    }


class EpisodeStuck(KeyboardInterrupt):
    """Wall-clock alarm fired while an episode was running (the loop thread was blocked or spinning)."""


WALL_PER_EPISODE = 4.0


def run_episode(ep: dict[str, Any]) -> dict[str, Any]:
    """Run one episode on a fresh virtual loop. Harness failures propagate (inconclusive)."""
    import signal

    def on_alarm(signum, frame):  # type: ignore[no-untyped-def]
        where = []
        f = frame
        while f is not None:
            if "/ramses_" in f.f_code.co_filename:
                where.append(f"{f.f_code.co_filename.rsplit('/', 1)[-1]}:{f.f_code.co_name}:{f.f_lineno}")
            f = f.f_back
        raise EpisodeStuck(where[0] if where else "?")

    old = signal.signal(signal.SIGALRM, on_alarm)
    signal.setitimer(signal.ITIMER_REAL, WALL_PER_EPISODE)
    try:
        hist, _ = vloop.run(_episode, ep, max_busy=400_000)
        return hist
    finally:
        signal.setitimer(signal.ITIMER_REAL, 0)
        signal.signal(signal.SIGALRM, old)


# ======================================================================== oracles
def effective_wfr(ep: dict[str, Any], c: dict[str, Any]) -> bool:
    if "frame" in c:
        has_reply, code = bool(c.get("reply")), c["frame"].split(" ")[-3]
    else:
        has_reply, code = bool(KINDS[c["kind"]]["reply"]), KINDS[c["kind"]]["code"]
    if not has_reply:
        return False
    dq = ep.get("disable_qos")
    if dq is True:
        return False
    if dq is None and code not in MUST_QOS_CODES:
        return False
    return c.get("wait_for_reply") is True


def oracle_c07(ep: dict[str, Any], h: dict[str, Any]) -> list[tuple[str, str, Any]]:
    out: list[tuple[str, str, Any]] = []
    evs = h["events"]
    for n, c in enumerate(ep["callers"]):
        fr = caller_frames(c)
        call = next((e for e in evs if e["ev"] == "call" and e["caller"] == n), None)
        ret = next((e for e in evs if e["ev"] == "return" and e["caller"] == n), None)
        if call is None:
            continue
        timeout = min(c.get("timeout", 20) or 20, 20)
        # the mandatory impersonation notice, if any, is the first inner send of this call
        notice = 0.0
        if fr["src"] != HGI:
            inner = [e for e in evs if e["ev"] in ("inner_call", "inner_return") and " 7FFF " in e["frame"] and e.get("task") == f"caller-{n}"]
            if len(inner) >= 2:
                notice = inner[1]["vt"] - inner[0]["vt"]
            elif inner:
                notice = 20.0
        bound = call["vt"] + notice + timeout + 0.01
        if ret is None:
            out.append(("C07|send_cmd|never-returned", "a send_cmd() call neither returned nor raised (hang)", {"caller": n, "call_vt": call["vt"], "end_vt": h["end_vt"]}))
            continue
        if ret.get("cancelled"):
            continue
        if ret["vt"] > bound:
            out.append(("C07|send_cmd|late-completion", "send_cmd() finished after the caller's timeout (capped at 20 s) + notice time", {"caller": n, "call_vt": call["vt"], "return_vt": ret["vt"], "bound": bound}))
        if "exc" in ret:
            if "ProtocolError" not in ret["exc_mro"]:
                out.append((f"C07|send_cmd|foreign-exception|{ret['exc']}|{ret.get('where')}", "send_cmd() raised an exception outside the protocol-error family", {"caller": n, "exc": ret["exc"], "text": ret.get("text")}))
            continue
        res = ret["result"]
        awaited = effective_wfr(ep, c)
        if res == fr["echo"]:
            if awaited:
                out.append(("C07|send_cmd|echo-returned-though-reply-awaited", "the echo was returned although a reply was awaited", {"caller": n, "result": res}))
        elif fr["reply"] and res == fr["reply"]:
            pass  # the matching reply always belongs to the command (awaited, or it simply got there first)
        else:
            out.append(("C07|send_cmd|foreign-packet-returned", "send_cmd() returned a packet that is neither this command's echo nor its reply", {"caller": n, "sent": fr["frame"], "returned": res}))
    return out


def oracle_c08(ep: dict[str, Any], h: dict[str, Any]) -> list[tuple[str, str, Any]]:
    out: list[tuple[str, str, Any]] = []
    evs = h["events"]
    writes = [e for e in evs if e["ev"] == "write"]
    # (1) never interleaved: A, B, A
    runs: list[Any] = []
    for w in writes:
        tag = w["inst"]  # the dequeue that started this command instance
        if not runs or runs[-1] != tag:
            runs.append(tag)
    if len(runs) != len(set(runs)):
        out.append(("C08|ledger|interleaved-commands", "transmissions of two commands interleave (A, B, A): more than one command in flight", {"runs": runs[:8]}))
    for n, c in enumerate(ep["callers"]):
        fr = caller_frames(c)
        mine = [w for w in writes if w["caller"] == n]
        call = next((e for e in evs if e["ev"] == "call" and e["caller"] == n), None)
        ret = next((e for e in evs if e["ev"] == "return" and e["caller"] == n), None)
        limit = 1 + min(c.get("max_retries", 3), 3)
        reps = max(1, c.get("num_repeats", 0))
        if reps > 1:
            # each attempt of this command goes out `num_repeats` times, 20 ms apart (and the repeats of an attempt are
            # sent even once the echo is in): only the total is judged for it
            if len(mine) > limit * reps:
                out.append(("C08|ledger|too-many-transmissions", "a command was transmitted more than (1 + min(max_retries, 3)) x num_repeats times", {"caller": n, "transmissions": len(mine), "limit": limit * reps}))
            continue
        if any(b["vt"] - a["vt"] < 0.25 for a, b in zip(mine, mine[1:])):
            out.append(("C08|ledger|repeats-not-asked-for", "a command sent without repeats was written again within a fraction of its echo wait (another caller's repeat count was applied to it)", {"caller": n, "writes_vt": [w["vt"] for w in mine][:8]}))
        if len(mine) > limit:
            out.append(("C08|ledger|too-many-transmissions", "a command was transmitted more than 1 + min(max_retries, 3) times", {"caller": n, "transmissions": len(mine), "limit": limit}))
        # (2) nothing after the caller has its answer
        ans = next((e for e in evs if e["ev"] == "answered" and e["caller"] == n), None)
        if ans is not None and (ret is None or ans["seq"] < ret["seq"]):
            ret_mark = ans
        else:
            ret_mark = ret
        if ret_mark is not None:
            late = [w for w in mine if w["seq"] > ret_mark["seq"]]
            if late:
                out.append(("C08|ledger|transmitted-after-completion", "a command was transmitted after its caller had been given a result or an error", {"caller": n, "answered_vt": ret_mark["vt"], "late_writes": [w["vt"] for w in late]}))
        if not mine or call is None:
            continue
        # which attempts were unanswered (no echo delivered before the next attempt)?
        def answered(w: dict[str, Any], nxt: dict[str, Any] | None) -> bool:
            hi = nxt["seq"] if nxt else (ret["seq"] if ret else 10**9)
            return any(e["ev"] == "deliver" and e["frame"] == fr["echo"] and w["seq"] < e["seq"] < hi for e in evs)

        gaps = [round(b["vt"] - a["vt"], 6) for a, b in zip(mine, mine[1:])]
        echoless = [not answered(w, mine[i + 1] if i + 1 < len(mine) else None) for i, w in enumerate(mine)]
        # (3) doubling between consecutive echo-less attempts
        for i in range(len(gaps) - 1):
            if echoless[i] and echoless[i + 1]:
                want = min(2 * gaps[i], 4.0)
                if abs(gaps[i + 1] - want) > 1e-4:
                    out.append(("C08|ledger|backoff-not-doubling", "the wait after an unanswered attempt did not double (cap 8 x 0.5 s)", {"caller": n, "gaps": gaps}))
                    break
        for i, g in enumerate(gaps):
            if echoless[i] and not any(abs(g - x) < 1e-4 for x in (0.5, 1.0, 2.0, 4.0)):
                out.append(("C08|ledger|backoff-off-grid", "an echo-less attempt waited something other than 0.5 x 2^m", {"caller": n, "gaps": gaps}))
                break
        # (4) exactly the budget when it ran out of retries; no fewer if the timeout allows
        if ret is not None and ret.get("exc") and "Exceeded maximum retries" in (ret.get("text") or ""):
            if len(mine) != limit:
                out.append(("C08|ledger|gave-up-early", "the command was failed for 'maximum retries' before 1 + min(max_retries, 3) transmissions", {"caller": n, "transmissions": len(mine), "limit": limit}))
        if ret is not None and ret.get("exc") and all(echoless) and len(mine) < limit and not h.get("had_transport_event"):
            deadline = call["vt"] + min(c.get("timeout", 20) or 20, 20)
            last = mine[-1]
            wait = min(2 * gaps[-1], 4.0) if gaps else 4.0
            if last["vt"] + wait < deadline - 1e-3 and "Expired global timer" in (ret.get("text") or ""):
                out.append(("C08|ledger|missing-retransmission", "the timeout allowed another transmission but the command was not re-sent", {"caller": n, "writes": [w["vt"] for w in mine], "deadline": deadline}))
    # (5) priority then FIFO, judged at each dequeue
    ncallers = len(ep["callers"])
    calls = {e["caller"]: e for e in evs if e["ev"] == "call" and e["caller"] < ncallers}
    rets = {e["caller"]: e for e in evs if e["ev"] == "return"}
    prio = {n: c.get("priority", 0) for n, c in enumerate(ep["callers"])}

    def queued_at(n: int) -> int | None:  # seq at which caller n's own command entered the queue
        f = caller_frames(ep["callers"][n])["frame"]
        for i in evs:
            if i["ev"] == "inner_call" and i.get("task") == f"caller-{n}" and i["frame"] == f:
                return i["seq"]
        return None

    dequeued: set[int] = set()
    for e in evs:
        if e["ev"] != "dequeue":
            continue
        x = e["caller"]
        if x < 0 or x >= ncallers:
            continue
        dequeued.add(x)
        if e["fut_done"]:
            continue
        qx = queued_at(x)
        for y in calls:
            if y == x or y in dequeued:
                continue
            qy = queued_at(y)
            if qy is None or qx is None or not qy < e["seq"]:
                continue  # y's command is not in the queue yet (e.g. its impersonation notice is pending)
            yr = rets.get(y)
            if yr is not None and yr["seq"] < e["seq"]:
                continue  # already answered (e.g. timed out while queued)
            if (prio[y], qy) < (prio[x], qx):
                out.append(("C08|queue|priority-fifo-violated", "a queued command started before another that had higher priority (or same priority and was queued earlier)", {"started": x, "overtaken": y, "keys": [[prio[x], qx], [prio[y], qy]]}))
    return out


def oracle_c09(ep: dict[str, Any], h: dict[str, Any]) -> list[tuple[str, str, Any]]:
    out: list[tuple[str, str, Any]] = []
    q = h["quiescent"]
    want_state = "IsInIdle" if q["connected"] else "Inactive"
    if q["state"] != want_state:
        out.append((f"C09|quiescent|state-{q['state']}-expected-{want_state}", "after traffic stopped the sender is not idle (or inactive when disconnected)", q))
    if q["fut_pending"] or q["cmd_set"] or q["queue"]:
        out.append(("C09|quiescent|something-in-flight", "after traffic stopped something is still in flight / queued", q))
    if q["open_calls"]:
        out.append(("C09|quiescent|caller-unanswered", "after traffic stopped a caller has still not been answered", q))
    if isinstance(q.get("is_sending"), str):
        out.append(("C09|quiescent|is_sending-inconsistent", "the sender's own consistency predicate fails at quiescence", q))
    p = h["probe"]
    if p.get("reconnect", "ok") != "ok":
        out.append(("C09|aftermath|reconnect-raises|" + p["reconnect"].split(":")[0] + "|" + p["reconnect"].rsplit("@", 1)[-1].strip(), "re-connecting a transport after a disconnect raises", p))
    if not p.get("returned") or not p.get("result"):
        out.append(("C09|aftermath|probe-failed", "a fresh command to a responsive device does not succeed after the episode", p))
    for e in h["events"]:
        if e["ev"] == "return" and "Coding error" in (e.get("text") or ""):
            out.append((f"C09|coding-error|caller|{e.get('where')}", "an internal consistency check ('Coding error') tripped and reached a caller", {"caller": e["caller"], "text": e["text"]}))
    for u in h["unhandled"]:
        if "never retrieved" in u["message"] and "injected" in u["text"]:
            continue  # the rig never awaits wait_for_connection_lost(); not the library's doing
        tag = "coding-error" if "Coding error" in u["text"] else "unhandled"
        out.append((f"C09|{tag}|loop|{u['type']}|{u['where']}", "an exception was left unhandled in the event loop" + (" (internal consistency check tripped)" if tag == "coding-error" else ""), u))
    for msg in h["coding_errors_logged"]:
        out.append(("C09|coding-error|logged", "the sender logged an internal 'Coding error'", msg))
    return out


# ======================================================================== episode generators
TIMEOUTS = (0.3, 0.5, 1, 1.5, 3.5, 7.5, 20, 25)
ECHO_ALPHABET = (None, ["abs", 0.004], ["T", -EPS], ["T", 0.0], ["T", EPS], ["abs", 0.25], ["at_timeout", 0])
REPLY_ALPHABET = (None, ["abs", 0.02], ["before", 0], ["T", -EPS], ["T", 0.0], ["T", EPS])
RQ_KINDS = ("RQ30C9", "RQ2309", "RQ000A", "RQ0004", "RQ0006", "RQ0418")
ALL_KINDS = tuple(KINDS)


def near_miss_frames(c: dict[str, Any], used_idx: set[int] | None = None) -> list[str]:
    """Packets differing from this caller's echo/reply in exactly one of code/verb/device/context.

    The other context is one no caller of the episode uses (else it would *be* that caller's packet).
    """
    fr = caller_frames(c)
    out = []
    i = f"{c['idx']:02X}"
    free = [x for x in range(12) if x != c["idx"] and x not in (used_idx or set())]
    j = f"{free[0]:02X}" if free else None
    for f in (fr["echo"], fr["reply"]):
        if not f:
            continue
        parts = f.split(" ")
        # other context (first payload byte, where the context is carried there)
        if j and KINDS[c["kind"]]["code"] in ("30C9", "2309", "000A", "0004") and parts[-1][:2] == i:
            out.append(" ".join(parts[:-1] + [j + parts[-1][2:]]))
        if j and KINDS[c["kind"]]["code"] == "0418" and parts[-1][4:6] == i:  # the fault-log index is the context
            out.append(" ".join(parts[:-1] + [parts[-1][:4] + j + parts[-1][6:]]))
        # other responding / addressed device (for an I/RP the header names the sender, so the
        # addressee is not one of the statement's distinguishing fields)
        if f[:2] in ("RQ", " W") or f is fr["reply"]:
            out.append(f.replace(fr["dev"], "01:188888"))
        # other verb
        v = f[:2]
        nv = {"RQ": "RP", "RP": " I", " W": "RQ", " I": "RP"}[v]
        out.append(nv + f[2:])
    return out


def gen_single(rng, n: int) -> dict[str, Any]:
    """Systematic single-caller episode #n (mixed-radix walk over the alphabet)."""
    kind = ALL_KINDS[n % len(ALL_KINDS)]
    n //= len(ALL_KINDS)
    wfr = (None, False, True)[n % 3]
    n //= 3
    dq = (None, False, True)[n % 3]
    n //= 3
    e0 = ECHO_ALPHABET[n % len(ECHO_ALPHABET)]
    n //= len(ECHO_ALPHABET)
    r0 = REPLY_ALPHABET[n % len(REPLY_ALPHABET)]
    n //= len(REPLY_ALPHABET)
    rest = n % 4  # what the later attempts see
    n //= 4
    late = bool(n % 2)
    later = [
        {"echo": None, "reply": None},
        {"echo": ["abs", 0.004], "reply": ["abs", 0.02]},
        {"echo": ["abs", 0.004], "reply": None},
        {"echo": ["T", 0.0], "reply": ["T", 0.0], "late": late},
    ][rest]
    c = {
        "kind": kind,
        "idx": rng.randrange(12),
        "wait_for_reply": wfr,
        "max_retries": rng.choice((0, 1, 2, 3, 4, 5)),
        "timeout": rng.choice(TIMEOUTS),
        "script": [{"echo": e0, "reply": r0, "late": late, "echo_dup": rng.choice((0, 0, 1))}, later],
    }
    if rng.random() < 0.15:
        c["src"] = "30:111111"
    if rng.random() < 0.3:
        c["script"][0]["foreign"] = [(rng.choice((0.002, 0.1, 0.5)), f) for f in near_miss_frames(c)[:3]]
    return {"disable_qos": dq, "callers": [c], "quiet": 30.0}


def gen_multi(rng, max_callers: int = 4) -> dict[str, Any]:
    n = rng.randint(1, max_callers)
    callers = []
    used: set[tuple[str, int]] = set()
    while len(callers) < n:
        kind = rng.choice(ALL_KINDS)
        idx = rng.randrange(12)
        if kind == "I30C9" and any(c["kind"] == "I30C9" for c in callers):
            continue  # I|30C9 from a gateway carries no context: two of them are indistinguishable by design
        if (kind, idx) in used or any(c["idx"] == idx for c in callers):
            if len(used) > 10:
                break
            used.add((kind, idx))
            continue
        used.add((kind, idx))
        script = []
        for _ in range(rng.randint(1, 4)):
            script.append(
                {
                    "echo": rng.choice(ECHO_ALPHABET),
                    "reply": rng.choice(REPLY_ALPHABET),
                    "late": rng.random() < 0.5,
                    "echo_dup": rng.choice((0, 0, 0, 1, 2)),
                }
            )
        c = {
            "kind": kind,
            "idx": idx,
            "at": rng.choice((0.0, 0.0, 0.0, 0.1, 0.5, 0.5 - EPS, 1.0, 2.0)),
            "priority": rng.choice((-4, -2, 0, 0, 0, 2, 4)),
            "wait_for_reply": rng.choice((None, False, True, True)),
            "max_retries": rng.choice((0, 1, 2, 3, 3, 5)),
            "timeout": rng.choice(TIMEOUTS),
            "script": script,
        }
        if rng.random() < 0.1:
            c["src"] = rng.choice(("30:111111", "04:123456"))
        c["_foreign"] = rng.random() < 0.25
        callers.append(c)
    if callers and rng.random() < 0.25:  # the same command issued twice (e.g. a poll and a user request)
        twin = dict(rng.choice(callers))
        twin.update(at=rng.choice((0.0, 0.001, 0.05, 0.3)), priority=rng.choice((-2, 0, 0, 2)), timeout=rng.choice((0.1, 0.3, 1, 3.5, 20)), max_retries=rng.choice((0, 1, 3)), _foreign=False, script=[dict(x) for x in twin["script"]])
        callers.append(twin)
    used_idx = {c["idx"] for c in callers}
    for c in callers:
        if c.pop("_foreign"):
            c["script"][0]["foreign"] = [(rng.choice((0.002, 0.1, 0.5, 0.5 + EPS)), f) for f in near_miss_frames(c, used_idx)[:4]]
    return {"disable_qos": rng.choice((None, False, False, True)), "callers": callers, "quiet": 30.0}


def add_repeats(rng, ep: dict[str, Any]) -> dict[str, Any]:
    """Some callers ask for their frame to be repeated (as the library's own binding / faked-device sends do)."""
    if len(ep["callers"]) > 1 and rng.random() < 0.25:
        frames = [caller_frames(c)["frame"] for c in ep["callers"]]
        single = [c for c, f in zip(ep["callers"], frames) if frames.count(f) == 1]  # (writes of twins cannot be told apart)
        for c in rng.sample(single, min(len(single), rng.choice((1, 1, 2)))):
            c["num_repeats"] = rng.choice((2, 3))
    return ep


def gen_faulty(rng) -> dict[str, Any]:
    """Multi-caller episode with transport events: disconnects in every state, write failures, pauses."""
    ep = gen_multi(rng, 3)
    kind = rng.choice(("fail_write", "disconnect_at", "disconnect_after_write", "disc_reconnect", "pause", "late_packets", "event_with_call", "caller_cancel"))
    if kind == "fail_write":
        ep["fail_writes"] = sorted({rng.randint(1, 5) for _ in range(rng.randint(1, 2))})
        ep["fail_write_kind"] = rng.choice(("transport", "transport", "os"))
    elif kind == "disconnect_at":
        ep["events"] = [{"at": rng.choice((0.0, 0.002, 0.004, 0.02, 0.3, 0.5, 0.5 + EPS, 1.5, 4.0)), "do": rng.choice(("disconnect", "disconnect_err", "disconnect_serial"))}]
    elif kind == "disconnect_after_write":
        ep["events"] = [{"after_write": rng.randint(1, 4), "delay": rng.choice((0.0, 0.001, 0.004, 0.005, 0.02, 0.5)), "do": rng.choice(("disconnect", "disconnect_err", "disconnect_serial"))}]
    elif kind == "event_with_call":
        # a transport event in the loop iteration of a call: after the command was queued, before the buffer check
        n = rng.randrange(len(ep["callers"]))
        ep["events"] = [{"with_call": n, "do": rng.choice(("disconnect", "disconnect_err", "disconnect_serial", "pause"))}]
        if rng.random() < 0.5:
            # a packet read in the iteration of the buffer check: the late echo / reply of an earlier, identical
            # command (or a near miss of it) reaches the sender between the check and the check's deferred half
            c = ep["callers"][n]
            fr = caller_frames(c)
            pool = [fr["echo"], fr["echo"], fr["reply"] or fr["echo"], *near_miss_frames(c, {x["idx"] for x in ep["callers"]})[:1]]
            ep["events"] = [{"with_call": n, "after_check": True, "do": "deliver", "frame": rng.choice(pool)}]
            if rng.random() < 0.5:
                c["wait_for_reply"] = True
        elif rng.random() < 0.3:
            ep["events"][0]["after_check"] = True
        if rng.random() < 0.4:
            ep["events"].append({"at": ep["callers"][n].get("at", 0.0) + rng.choice((0.0, 0.001, 0.3, 2.0)), "do": rng.choice(("reconnect", "resume"))})
    elif kind == "caller_cancel":
        # an application that gives up on a call: at a chosen moment of the call's life, or in the very iteration
        # in which another caller makes its call (between the two buffer checks those calls schedule)
        n = rng.randrange(len(ep["callers"]))
        c = ep["callers"][n]
        if len(ep["callers"]) > 1 and rng.random() < 0.5:
            m = rng.choice([i for i in range(len(ep["callers"])) if i != n])
            ep["callers"][m]["at"] = c.get("at", 0.0) + rng.choice((0.0, 0.0, 0.001, 0.004, 0.5))
            ep["events"] = [{"with_call": m, "after_check": rng.random() < 0.4, "do": "cancel_caller", "target": n}]
        else:
            ep["events"] = [{"at": c.get("at", 0.0) + rng.choice((0.0, 0.001, 0.004, 0.005, 0.02, 0.3, 0.5, 0.5 + EPS, 1.0, 1.5)), "do": "cancel_caller", "target": n}]
    elif kind == "disc_reconnect":
        t = rng.choice((0.002, 0.3, 0.5, 1.0))
        ep["events"] = [{"at": t, "do": "disconnect"}, {"at": t + rng.choice((0.0, 0.001, 0.5, 3.0)), "do": "reconnect"}]
    elif kind == "pause":
        t = rng.choice((0.0, 0.002, 0.3))
        ep["events"] = [{"at": t, "do": "pause"}, {"at": t + rng.choice((0.1, 1.0, 5.0)), "do": "resume"}]
    else:  # arbitrary packets received in every state, long after the fact
        c = ep["callers"][0]
        fr = caller_frames(c)
        used_idx = {x["idx"] for x in ep["callers"]}
        ep["events"] = [{"at": rng.choice((0.001, 0.3, 2.0, 9.0, 25.0)), "do": "deliver", "frame": f} for f in (fr["echo"], fr["reply"] or fr["echo"], *near_miss_frames(c, used_idx)[:2])]
    return ep


def gen_burst(rng, n: int) -> dict[str, Any]:
    """Up to (and past) the 32-slot buffer: equal-time callers with mixed priorities."""
    callers = []
    for i in range(n):
        callers.append(
            {
                "kind": rng.choice(("RQ30C9", "RQ2309", "W2309", "RP30C9")) if i % 12 == i else rng.choice(("RQ000A", "RQ0004")),
                "idx": i % 12,
                "dev": f"01:{150000 + i:06d}",
                "at": 0.0 if rng.random() < 0.8 else rng.choice((0.001, 0.05)),
                "priority": rng.choice((-4, -2, 0, 0, 2, 4)),
                "wait_for_reply": rng.choice((None, True)),
                "max_retries": rng.choice((0, 1, 3)),
                "timeout": rng.choice((1, 3.5, 20)),
                "script": [{"echo": rng.choice((None, ["abs", 0.004], ["abs", 0.004], ["T", 0.0])), "reply": rng.choice((None, ["abs", 0.02]))}],
            }
        )
    if n >= 30 and rng.random() < 0.6:
        # the first command stays in flight (echo lost on every attempt: 7.5 s), the buffer fills, queued callers
        # with short timeouts give up, and further callers arrive while the buffer still holds those dead entries
        callers[0].update({"at": 0.0, "max_retries": 3, "timeout": 20, "script": [{"echo": None, "reply": None}]})
        for c in callers[1:]:
            c["at"] = 0.0 if rng.random() < 0.9 else 0.001
            c["timeout"] = rng.choice((0.3, 1, 1, 3.5, 20, 20))
        for j in range(rng.choice((1, 2, 4))):
            i = len(callers)
            callers.append(
                {
                    "kind": rng.choice(("RQ000A", "RQ0004")),
                    "idx": i % 12,
                    "dev": f"01:{150000 + i:06d}",
                    "at": rng.choice((0.4, 1.2, 2.0, 4.0, 6.0)) + j * 0.01,
                    "priority": rng.choice((-4, -2, 0, 2, 4)),
                    "wait_for_reply": None,
                    "max_retries": 1,
                    "timeout": 20,
                    "script": [{"echo": ["abs", 0.004], "reply": ["abs", 0.02]}],
                }
            )
    return {"disable_qos": rng.choice((None, False)), "callers": callers, "quiet": 30.0, "horizon": 120.0}


def episode_signature(ep: dict[str, Any], h: dict[str, Any]) -> str:
    outcomes = []
    for e in h["events"]:
        if e["ev"] == "return" and e.get("caller", 99) < len(ep["callers"]):
            outcomes.append("ok" if "result" in e else (e.get("exc") or "cancel")[:12])
    path = "".join(p[0] + p[4:] for p in h["state_path"])[:60]
    return f"{len(ep['callers'])}|{ep.get('disable_qos')}|{path}|{','.join(outcomes)}|ev{len(ep.get('events', []))}fw{len(ep.get('fail_writes', []))}"


def drive(ctx, oracle, pid: str, budget: dict[str, int]) -> None:
    """Generate and run episodes, judge each with `oracle`, record coverage into ctx."""
    rng = ctx.rng
    plans: list[tuple[str, Any]] = []
    stride = ctx.nshards
    for k in range(budget["single"]):
        plans.append(("single", ctx.shard + k * stride))
    plans += [("multi", None)] * budget["multi"]
    plans += [("faulty", None)] * budget["faulty"]
    plans += [("burst", n) for n in ([2, 5, 12, 31, 32, 33, 40] * budget["burst"])[: budget["burst"]]]
    for kind, arg in plans:
        if kind == "single":
            ep = gen_single(rng, arg * 7919 % 10_000_019 if arg > 30000 else arg)
        elif kind == "multi":
            ep = add_repeats(rng, gen_multi(rng))
        elif kind == "faulty":
            ep = gen_faulty(rng)
        else:
            ep = gen_burst(rng, arg)
        try:
            h = run_episode(ep)
        except EpisodeStuck as err:
            where = str(err)
            ctx.count("episodes.stuck")
            if "_check_buffer_for_cmd" in where:
                # the loop thread sits in Lock.acquire(): an assertion raised between acquire()
                # and release() earlier in the episode left the sender's own lock held for ever
                ctx.violate(
                    f"{pid}|wedge|event-loop-blocked-on-sender-lock",
                    "the event-loop thread blocked for ever on the sender's own lock (left held by an internal assertion): every caller hangs",
                    {"episode": ep, "blocked_at": where},
                )
            else:
                ctx.inconclusive_because(f"episode stopped by the wall-clock alarm at {where}")
            continue
        except vloop.Starved as err:
            ctx.count("episodes.starved")
            ctx.info.setdefault("starved", []).append({"why": str(err), "episode": ep})
            # a scenario in which nothing is left to run while a caller still waits is a hang
            ctx.violate(f"{pid}|episode|deadlock", "the event loop ran dry while a send_cmd() caller was still waiting (hang)", {"episode": ep, "error": str(err)})
            continue
        ctx.ev()
        ctx.count(f"episodes.{kind}")
        ctx.count("writes", sum(1 for e in h["events"] if e["ev"] == "write"))
        ctx.count("calls", sum(1 for e in h["events"] if e["ev"] == "call"))
        ctx.count("timer_coincidences", h["coincidences"])
        ctx.seen(episode_signature(ep, h))
        for key, what, wit in oracle(ep, h):
            ctx.violate(key, what, {"episode": ep, "observed": wit})
        if ctx.evals <= 2:
            ctx.sample({"episode": ep, "state_path": h["state_path"], "returns": [e for e in h["events"] if e["ev"] == "return"]})
