"""Helpers that stand the real library up on the doubles."""

from __future__ import annotations

import asyncio
import contextlib
import io
from typing import Any
from unittest.mock import patch

from . import vloop
from .air import Air
from .boundary import FakeSerial, clocks_patched, serial_patched


async def start_port_gateway(
    loop: vloop.VirtualLoop,
    air: Air,
    gwy_id: str = "18:006402",
    *,
    start_kwargs: dict[str, Any] | None = None,
    **kwargs: Any,
):
    """A real ramses_rf.Gateway on a FakeSerial attached to `air`."""
    from ramses_rf import Gateway

    port = air.add_port(gwy_id)
    with serial_patched():
        gwy = Gateway(port.name, **kwargs)
        await gwy.start(**(start_kwargs or {}))
    gwy._vrf_port = port  # type: ignore[attr-defined]
    return gwy


async def stop_gateway(gwy: Any) -> None:
    try:
        await asyncio.wait_for(gwy.stop(), timeout=5)
    except Exception:
        pass
    port: FakeSerial | None = getattr(gwy, "_vrf_port", None)
    if port:
        port.close()


def file_gateway(lines: list[tuple[str, str]], **kwargs: Any):
    """A real Gateway reading from an in-memory packet log (TextIOWrapper, as the CLI does)."""
    from ramses_rf import Gateway

    text = "".join(f"{dtm} {rest}\n" for dtm, rest in lines)
    fh = io.TextIOWrapper(io.BytesIO(text.encode("utf-8", errors="replace")), encoding="utf-8", errors="replace")
    return Gateway(None, input_file=fh, **kwargs)


def reset_transport_globals(disable_duty_cycle_limit: bool = True) -> None:
    """Process-global transport state must not leak from one scenario into the next.

    The duty-cycle bucket lives in a closure and refills on the *wall* clock, and the list of
    pending controller sync cycles is a module global: with hundreds of scenarios per process
    (each restarting the virtual clock) both would make later scenarios depend on earlier ones.
    Checks that do not study transmit regulation (that is C11, in its own process) switch the
    limiter off with the library's own debug flag, as the repository's tests do.
    """
    import ramses_tx.transport as tr

    tr._global_sync_cycles.clear()
    if disable_duty_cycle_limit:
        tr._DBG_DISABLE_DUTY_CYCLE_LIMIT = True


@contextlib.contextmanager
def on_demand_write_spacer():
    """The serial transport's write-spacing ticker, phase for phase, without the idle ticks.

    `PortTransport._leak_sem()` releases a one-slot semaphore every MIN_INTER_WRITE_GAP seconds for ever, which
    is a quarter of all loop iterations of a scenario lasting virtual days.  This stand-in releases it at exactly
    the same instants (multiples of the gap after the transport was made) but only when somebody has taken the
    slot, so the instants at which a write may go out are unchanged.  Used only by checks that do not judge
    write spacing (C11 judges the real ticker).
    """
    import ramses_tx.transport as tr

    async def _leak_sem(self: Any) -> None:
        loop, sem, gap = self._loop, self._leaker_sem, tr.MIN_INTER_WRITE_GAP
        t0, taken, acquire = loop.time(), asyncio.Event(), sem.acquire

        async def _acquire() -> bool:
            res = await acquire()
            taken.set()
            return res

        sem.acquire = _acquire
        while True:
            await taken.wait()
            taken.clear()
            ticks = int((loop.time() - t0) / gap) + 1
            await asyncio.sleep(max(0.0, t0 + ticks * gap - loop.time()))
            with contextlib.suppress(ValueError):
                sem.release()

    with patch.object(tr.PortTransport, "_leak_sem", _leak_sem):
        yield
