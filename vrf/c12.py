"""C12 — active discovery reconstructs the controller's configuration, whatever it is.

A real port Gateway with discovery enabled and no schema runs, on the virtual clock (incl. the
clock the discovery scheduler reads), against a simulated controller whose configuration is the
ground truth: which zones exist, each zone's class, sensor and 0-8 actuators, the hot-water
sensor / valves, the appliance control.  The controller answers the RQs a real one answers
(0005, 000C, and the routine status codes) with frames built as text from the field layouts.

 (1) convergence : the reported schema comes to equal the configuration: within 2 polling rounds (50 virtual
                   hours; normally within a minute) without faults, within 5 rounds when requests/replies
                   are lost during the first hour (the scheduler re-polls 0005/000C every 24 h);
 (2) monotone    : sampled every 15 virtual minutes, nothing that was learned disappears or
                   changes, and every device in the schema is one the controller named.
"""

from __future__ import annotations

import asyncio
import random
import re
from typing import Any
from unittest.mock import patch

from . import air as airmod, harness, vloop
from .boundary import clocks_patched
from .mon import innermost_lib_frame

PID = "C12"
LEVEL = "fault_enumeration"
SHARDS = {"quick": 16, "thorough": 16}
WALL_LIMIT = {"quick": 900, "thorough": 7200}
RULE = (
    "configurations = random subsets of zones 00-0B x class {radiator, zone-valve, electric, mixing} x sensor type "
    "{03, 04, 12, 22, 34, the controller itself, none} x 0-8 actuators x DHW {absent, any subset of sensor / hot-water "
    "valve / heating valve} x appliance control {none, relay, OpenTherm bridge}; fault plans over the first polling "
    "round = none / lose every request or reply of one role (0005, 000C zone actuators, 000C sensors, 000C DHW, 000C "
    "appliance) / lose a random 30-60 % / lose everything for the first hour. Distinct = (zones, classes used, DHW "
    "parts, appliance kind, fault plan, converged?)."
)
ASSUMPTIONS = [
    "the simulated controller is written from the RAMSES field layouts (0005 zone masks, 000C device lists) and answers like an evohome; devices other than the controller never answer (TRVs, relays and sensors do not answer a gateway's RQs)",
    "only the items the statement lists are compared (zones: class / sensor / actuators; hot-water sensor and valves; appliance control)",
    "the gateway's write-spacing task is slowed from 50 ms to 250 ms (C11's subject) so that a virtual day costs seconds of wall time",
    "faults are confined to the first polling round (the first virtual hour); afterwards the link is clean",
]
REQUIRED = {"pollers.checked": 50, "state_saves": 5, "scenarios": 16, "scenarios.faulted": 4, "samples.monotone": 100, "rq.0005": 50, "rq.000C": 100}

CTL, GWY_ID = "01:145038", "18:006402"
CLASS_CODE = {"radiator_valve": "08", "zone_valve": "0A", "electric_heat": "11", "mixing_valve": "0B"}
ACT_TYPE = {"radiator_valve": "04", "zone_valve": "13", "electric_heat": "13", "mixing_valve": "00"}


def hex_id(dev_id: str) -> str:
    return f"{(int(dev_id[:2]) << 18) | int(dev_id[3:]):06X}"


def gen_config(rng) -> dict[str, Any]:
    n = [100000]

    def dev(typ: str) -> str:
        n[0] += rng.randint(1, 997)
        return f"{typ}:{n[0]:06d}"

    zones: dict[str, Any] = {}
    ctl_used = False
    for i in sorted(rng.sample(range(12), rng.choice((1, 2, 3, 5, 8, 12)))):
        klass = rng.choice(list(CLASS_CODE))
        pick = rng.random()
        if pick < 0.1:
            sensor = None
        elif pick < 0.2 and not ctl_used:
            sensor, ctl_used = CTL, True
        else:
            sensor = dev(rng.choice(("03", "04", "12", "22", "34")))
        acts = sorted(dev(ACT_TYPE[klass]) for _ in range(rng.choice((0, 1, 1, 2, 3, 8))))
        zones[f"{i:02X}"] = {"class": klass, "sensor": sensor, "actuators": acts}
    dhw: dict[str, str] = {}
    if rng.random() < 0.6:
        if rng.random() < 0.8:
            dhw["sensor"] = dev("07")
        if rng.random() < 0.6:
            dhw["hotwater_valve"] = dev("13")
        if rng.random() < 0.4:
            dhw["heating_valve"] = dev("13")
    app = rng.choice((None, dev("13"), dev("10")))
    return {"zones": zones, "stored_hotwater": dhw, "appliance_control": app}


class SimCtl:
    def __init__(self, loop, air: airmod.Air, ctx, cfg: dict[str, Any]) -> None:
        self.loop, self.air, self.ctx, self.cfg = loop, air, ctx, cfg
        self.rq_log: list[tuple[float, str]] = []
        air.add_listener(self.heard)

    def devices(self) -> set[str]:
        ids = {CTL}
        for z in self.cfg["zones"].values():
            ids |= set(z["actuators"]) | ({z["sensor"]} if z["sensor"] else set())
        ids |= set(self.cfg["stored_hotwater"].values())
        if self.cfg["appliance_control"]:
            ids.add(self.cfg["appliance_control"])
        return ids

    def heard(self, frame: str) -> None:
        m = re.match(r"RQ ... (18:\d{6}) 01:145038 --:------ (\w{4}) \d{3} (\w+)$", frame)
        if not m:
            return
        req, code, pay = m.groups()
        self.rq_log.append((self.loop.time(), f"{code} {pay}"))
        self.ctx.count(f"rq.{code}")
        body = self.answer(code, pay)
        if body is not None:
            self.air.inject(f"RP --- {CTL} {req} --:------ {code} {len(body) // 2:03d} {body}", delay=0.03)

    def answer(self, code: str, pay: str) -> str | None:
        zones = self.cfg["zones"]
        if code == "0005":
            tt = pay[2:4]
            if tt in CLASS_CODE.values():
                idxs = [int(z, 16) for z, v in zones.items() if CLASS_CODE[v["class"]] == tt]
            elif tt == "04":
                idxs = [int(z, 16) for z, v in zones.items() if v["sensor"]]
            elif tt == "00":
                idxs = [int(z, 16) for z in zones]
            else:
                idxs = []
            mask = sum(1 << i for i in idxs)
            return f"00{tt}{mask & 0xFF:02X}{mask >> 8:02X}"
        if code == "000C":
            zz, tt = pay[:2], pay[2:4]
            devs: list[str] = []
            if tt in ("08", "0A", "0B", "11", "00") and zz in zones:
                z = zones[zz]
                if tt in ("00", CLASS_CODE[z["class"]]):
                    devs = z["actuators"]
            elif tt == "04" and zz in zones and zones[zz]["sensor"]:
                devs = [zones[zz]["sensor"]]
            elif tt == "0D" and zz == "00" and self.cfg["stored_hotwater"].get("sensor"):
                devs = [self.cfg["stored_hotwater"]["sensor"]]
            elif tt == "0E":
                key = "hotwater_valve" if zz == "00" else "heating_valve"
                if self.cfg["stored_hotwater"].get(key):
                    devs = [self.cfg["stored_hotwater"][key]]
            elif tt == "0F" and self.cfg["appliance_control"]:
                devs = [self.cfg["appliance_control"]]
            if not devs:
                return f"{zz}{tt}7FFFFFFF"
            return "".join(f"{zz}{tt}00{hex_id(d)}" for d in devs[:8])
        z = pay[:2]
        if code in ("30C9", "2349", "000A", "12B0", "0004", "2309") and z not in zones:
            return None
        simple = {
            "30C9": f"{z}07D0",
            "2309": f"{z}07D0",
            "2349": f"{z}07D000FFFFFF",
            "000A": f"{z}1001F40DAC",
            "12B0": f"{z}0000",
            "0004": f"{z}00" + "5A6F6E65".ljust(40, "0"),
            "0006": "00050135",
            "1100": "FC180400007FFF01",
            "2E04": "00FFFFFFFFFFFF00",
            "313F": "00FC0A1E0C010307E8",
            "1F09": "00073F",
            "0100": "00656EFFFF",
        }
        if code in ("10A0", "1260", "1F41") and not self.cfg["stored_hotwater"]:
            return None
        simple.update({"10A0": "0013880003E8", "1260": "001388", "1F41": "000100FFFFFF"})
        return simple.get(code)


def project(schema: dict[str, Any]) -> dict[str, Any]:
    tcs = schema.get(CTL) or {}
    zones = {}
    for idx, z in (tcs.get("zones") or {}).items():
        zones[idx] = {"class": z.get("class"), "sensor": z.get("sensor"), "actuators": sorted(z.get("actuators") or [])}
    hw = {k: v for k, v in (tcs.get("stored_hotwater") or {}).items() if v and k in ("sensor", "hotwater_valve", "heating_valve")}
    return {"zones": zones, "stored_hotwater": hw, "appliance_control": (tcs.get("system") or {}).get("appliance_control")}


def facts(p: dict[str, Any]) -> set[str]:
    out = set()
    for idx, z in p["zones"].items():
        out.add(f"zone {idx}")
        if z["class"]:
            out.add(f"zone {idx} class {z['class']}")
        if z["sensor"]:
            out.add(f"zone {idx} sensor {z['sensor']}")
        out |= {f"zone {idx} actuator {a}" for a in z["actuators"]}
    out |= {f"dhw {k} {v}" for k, v in p["stored_hotwater"].items()}
    if p["appliance_control"]:
        out.add(f"appliance {p['appliance_control']}")
    return out


FAULT_PLANS = ("lose-0005-class-masks", "lose-0005", "lose-000C-actuators", "lose-000C-sensors", "lose-000C-dhw", "lose-000C-app", "lose-random", "lose-all-first-hour", "jam-000C", "jam-0005")


class Faults:
    def __init__(self, loop, rng, plan: str) -> None:
        self.loop, self.rng, self.plan = loop, rng, plan
        self.direction = rng.choice(("to_sim", "to_gwy"))
        self.p = rng.choice((0.3, 0.6))
        self.applied = 0

    def __call__(self, kind: str, frame: str, target: str) -> list[float]:
        base = 0.004 if kind == "echo" else 0.012
        if self.plan == "none" or self.loop.time() > 3600.0:
            return [base]
        direction = "to_sim" if target == "sim" else "to_gwy"
        code, pay = frame[37:41], frame[46:]
        if self.plan.startswith("jam-"):
            # the channel is busy whenever the stick tries one kind of request: nothing goes out and the stick has
            # no echo to give, on any of the transmissions - the send *fails* (a lost reply would not show)
            if code == self.plan[4:] and frame[:2] == "RQ" and (kind == "echo" or direction == "to_sim"):
                self.applied += 1
                return []
            return [base]
        if kind == "echo":
            return [base]
        hit = False
        if self.plan == "lose-all-first-hour":
            hit = direction == self.direction
        elif direction != self.direction:
            hit = False
        elif self.plan == "lose-0005":
            hit = code == "0005"
        elif self.plan == "lose-0005-class-masks":  # the zones become known (sensor mask) before their classes do
            hit = code == "0005" and pay[2:4] in ("08", "09", "0A", "0B", "11")
        elif self.plan == "lose-000C-actuators":
            hit = code == "000C" and pay[2:4] in ("00", "08", "0A", "0B", "11")
        elif self.plan == "lose-000C-sensors":
            hit = code == "000C" and pay[2:4] == "04"
        elif self.plan == "lose-000C-dhw":
            hit = code == "000C" and pay[2:4] in ("0D", "0E")
        elif self.plan == "lose-000C-app":
            hit = code == "000C" and pay[2:4] == "0F"
        elif self.plan == "lose-random":
            hit = code in ("0005", "000C") and self.rng.random() < self.p
        if hit:
            self.applied += 1
            return []
        return [base]


async def scenario(loop: vloop.VirtualLoop, ctx, trial: int) -> None:
    rng = random.Random(f"C12/{ctx.seed}/{trial}")
    cfg = gen_config(rng)
    plan = FAULT_PLANS[(trial // 2) % len(FAULT_PLANS)] if trial % 2 else "none"
    if ctx.quick:  # quick tier: one faulted (five virtual days) scenario in four, walking through all the plans
        plan = FAULT_PLANS[(trial // 4) % len(FAULT_PLANS)] if trial % 4 == 1 else "none"
    faults = Faults(loop, rng, plan)
    air = airmod.Air(loop, fault=faults)
    sim = SimCtl(loop, air, ctx, cfg)
    meta = {"seed": ctx.seed, "trial": trial, "fault_plan": plan, "fault_direction": faults.direction if plan != "none" else None, "config": cfg}
    # the controller announces itself, as every controller does (sync cycle): possibly while the gateway is
    # still starting up (port open, signature exchange not finished), possibly later; then every few minutes
    first = rng.choice((0.005, 0.02, 0.04, 0.07, 0.5, 5.0))
    meta["first_announcement_s"] = first

    def announce() -> None:
        air.inject(f" I --- {CTL} --:------ {CTL} 1F09 003 FF073F", faultable=False)
        loop.call_later(185.5, announce)

    loop.call_later(first, announce)
    gwy = await harness.start_port_gateway(loop, air, GWY_ID, config={"disable_discovery": False, "enable_eavesdrop": False})
    # what an application does meanwhile: it saves the gateway's state now and then (Home Assistant does so every
    # few minutes) - also before the controller, or parts of it, have been discovered
    if trial % 3 == 0:
        snaps = sorted(rng.choice((0.0, 0.01, 0.06, 0.3, 2.0, 40.0, 400.0, 90000.0)) for _ in range(rng.choice((1, 2, 4))))
        meta["state_saved_at_s"] = snaps

        def save_state() -> None:
            try:
                gwy.get_state()
                ctx.count("state_saves")
            except Exception as err:  # noqa: BLE001  (C13's subject)
                ctx.info.setdefault("get_state_raised", []).append(f"{type(err).__name__}@{innermost_lib_frame(err)}")

        for at in snaps:
            loop.call_later(at, save_state)
    want = project({CTL: {"zones": cfg["zones"], "stored_hotwater": cfg["stored_hotwater"], "system": {"appliance_control": cfg["appliance_control"]}}})
    want_facts = facts(want)
    allowed_ids = sim.devices() | {GWY_ID}
    # The statement sets no deadline, only "a later polling round" (24 h apart).  A send that fails for any
    # reason - a lost frame, but also the library's own 32-slot send buffer overflowing when a large
    # configuration makes ~100 requests due at once - is retried a day later, and after a wholesale loss the
    # whole herd is due together again, so a few rounds may be needed.  Bounds: 2 rounds without faults, 5 with.
    bound = (2 * 24 + 2) * 3600.0 if plan == "none" else (5 * 24 + 2) * 3600.0
    learned: set[str] = set()
    converged_at = None
    t = 0.0
    # what an application does meanwhile: an integration reload stops and starts the same gateway object (same radio,
    # a new transport) - after the faulted first round, before the next one
    restart_at = rng.choice((2 * 3600.0, 5 * 3600.0)) if plan != "none" and trial % 8 == 5 else None
    meta["gateway_restarted_at_s"] = restart_at
    while t < bound:
        step = 900.0 if t >= 900.0 else 60.0
        await asyncio.sleep(step)
        t += step
        if restart_at is not None and t >= restart_at:
            from .boundary import serial_patched

            restart_at = None
            old_port = gwy._vrf_port
            await gwy.stop()
            new_port = air.swap_stick(old_port, GWY_ID)
            with serial_patched():
                await gwy.start()
            gwy._vrf_port = new_port
            ctx.count("gateway_restarts")
            await asyncio.sleep(1.0)
        try:
            got = project(gwy.schema)
        except Exception as err:  # noqa: BLE001  (C13's subject)
            ctx.count("schema.raised")
            ctx.info.setdefault("schema_raised", []).append(f"{type(err).__name__}@{innermost_lib_frame(err)}")
            continue
        ctx.count("samples.monotone")
        now = facts(got)
        lost = learned - now
        if lost:
            ctx.violate(
                "C12|monotone|learned-fact-lost",
                "something the gateway had learned about the controller's configuration later disappeared from its schema",
                {"lost": sorted(lost)[:6], "at_virtual_s": t, "scenario": meta},
            )
            learned -= lost
        invented = now - want_facts
        if invented:
            ctx.violate(
                "C12|monotone|fact-the-controller-never-stated",
                "the schema contains something the controller did not say",
                {"invented": sorted(invented)[:6], "at_virtual_s": t, "scenario": meta},
            )
        learned |= now
        ids = {d for z in got["zones"].values() for d in ([z["sensor"]] if z["sensor"] else []) + z["actuators"]} | set(got["stored_hotwater"].values()) | ({got["appliance_control"]} if got["appliance_control"] else set())
        if ids - allowed_ids:
            ctx.violate("C12|monotone|device-the-controller-never-named", "the schema names a device the controller never reported", {"devices": sorted(ids - allowed_ids), "scenario": meta})
        if got == want and converged_at is None:
            converged_at = t
            if t > 3600.0 or plan == "none":
                break
    final = project(gwy.schema)
    ctx.count("scenarios")
    if converged_at is not None:
        ctx.count("converged.within_1h" if converged_at <= 3600 else "converged.after_1_round" if converged_at <= 26 * 3600 else "converged.after_2+_rounds")
    if plan != "none":
        ctx.count("scenarios.faulted")
        ctx.count("faults.applied", faults.applied)
    if final != want:
        missing = sorted(want_facts - facts(final))
        extra = sorted(facts(final) - want_facts)
        kinds = sorted({m.split(" ")[2] if m.startswith("zone ") and len(m.split(" ")) > 2 else m.split(" ")[0] for m in missing + extra})
        ctx.violate(
            f"C12|convergence|schema-differs-from-configuration|{plan}|{','.join(kinds)[:60]}",
            "after the bound the discovered schema is not the controller's configuration",
            {"missing": missing[:8], "unexpected": extra[:8], "bound_virtual_s": bound, "requests_seen": len(sim.rq_log), "last_requests": [r for _, r in sim.rq_log[-6:]], "scenario": meta},
        )
    # 'the missing part is filled in at a later polling round' needs pollers that are still there: an entity whose
    # discovery poller has ended with an exception will never ask again
    ents = list(gwy.devices)
    for tcs_ in gwy.systems:
        ents += [tcs_, *tcs_.zones] + ([tcs_.dhw] if tcs_.dhw else [])
    for e in ents:
        task = getattr(e, "_discovery_poller", None)
        if task is None:
            continue
        ctx.count("pollers.checked")
        if task.done() and not task.cancelled() and task.exception() is not None:
            err = task.exception()
            ctx.violate(
                f"C12|poller-died|{type(err).__name__}|{innermost_lib_frame(err)}",
                "an entity's discovery poller ended with an exception: whatever it had not learned will never be asked for again",
                {"entity": str(e.id), "error": repr(err)[:200], "scenario": meta},
            )
    for u in loop.unhandled:
        ctx.info.setdefault("loop_unhandled", []).append(f"{u['type']}@{u['where']}")
    ctx.ev()
    z = cfg["zones"]
    ctx.seen(f"zones={len(z)}|classes={''.join(sorted({CLASS_CODE[v['class']] for v in z.values()}))}|hw={len(cfg['stored_hotwater'])}|app={(cfg['appliance_control'] or '--')[:2]}|{plan}|{'converged' if final == want else 'not'}")
    if trial < 2:
        ctx.sample({"scenario": meta, "converged_at_virtual_s": converged_at, "requests_seen": len(sim.rq_log), "first_requests": [r for _, r in sim.rq_log[:10]]})
    await harness.stop_gateway(gwy)
    air.close()


def run(ctx) -> None:
    n = 3 if ctx.quick else 40
    for trial in range(n * ctx.nshards):
        if not ctx.claim(trial):
            continue
        harness.reset_transport_globals()

        async def go(loop, trial=trial):
            with clocks_patched(), patch("ramses_tx.transport.MIN_INTER_WRITE_GAP", 0.25), harness.on_demand_write_spacer():
                await scenario(loop, ctx, trial)

        try:
            vloop.run(go)
        except vloop.Starved as err:
            ctx.inconclusive_because(f"scenario starved the virtual clock: {err}")


def replay(data: dict[str, Any]) -> int:
    from .common import Ctx

    bad, seen = 0, set()
    for w in data.get("witnesses", []):
        sc = w.get("scenario") or {}
        if "trial" not in sc or (sc["seed"], sc["trial"]) in seen:
            continue
        seen.add((sc["seed"], sc["trial"]))
        ctx = Ctx(PID, "thorough", sc["seed"], 0, 1)
        harness.reset_transport_globals()

        async def go(loop, sc=sc, ctx=ctx):
            with clocks_patched(), patch("ramses_tx.transport.MIN_INTER_WRITE_GAP", 0.25), harness.on_demand_write_spacer():
                await scenario(loop, ctx, sc["trial"])

        vloop.run(go)
        for k, v in ctx.violations.items():
            print("REPRODUCED", k, "-", v["what"])
            print("   ", str(v["witnesses"][0])[:1200])
            bad += 1
        if not ctx.violations:
            print(f"scenario seed={sc['seed']} trial={sc['trial']}: not reproduced")
    return bad
