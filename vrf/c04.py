"""C04 — wire value codecs are exact inverses on their grid (inverse-pair monitor).

Every encoder/decoder pair is run over its finite grid; the oracle is exact equality.
The id space (2^24) and the word space (2^16) are enumerated completely, split over
shards.  Mechanism keys name the helper and the clause, never the value.
"""

from __future__ import annotations

import calendar
import os
import time
from datetime import datetime as dt, timedelta as td

PID = "C04"
LEVEL = "exploration"
SHARDS = {"quick": 16, "thorough": 16}
EXHAUSTIVE = {"quick": False, "thorough": True}
RULE = (
    "grid points of each codec pair (temperature words and k/100 values, percent bytes "
    "in both resolutions, double words, flag bytes, booleans, printable strings, "
    "minute/second date-times, packed fault-log timestamps, 24-bit device ids, schedule "
    "setpoints); a point is non-trivial when it decodes/encodes to a value at all, and "
    "distinct by (codec, direction, value-class) where value-class is the high byte / "
    "day / id-type so the number counts classes actually exercised, not raw points"
)
ASSUMPTIONS = [
    "the three reserved temperature words 31FF/7EFF/7FFF are sentinels, not temperatures",
    "strings are compared without leading/trailing blanks (the decoder strips padding)",
    "quick tier strides the 2^24 id space (every 13th id + all type boundaries) and thins the "
    "date windows; thorough enumerates them completely",
]
REQUIRED = {
    "temp.words": 1,
    "temp.values": 1,
    "percent.bytes": 1,
    "ids.hex": 1,
    "dtm.minutes": 1,
    "dts.seconds": 1,
    "sched.setpoints": 1,
}

SENTINEL_WORDS = {"31FF", "7EFF", "7FFF"}

# POSIX TZ strings (no tzdata needed)
TZS = [
    ("utc", "UTC0"),
    ("cet-dst", "CET-1CEST,M3.5.0,M10.5.0/3"),
    ("us-eastern-dst", "EST5EDT,M3.2.0,M11.1.0"),
    ("au-eastern-dst", "AEST-10AEDT,M10.1.0,M4.1.0/3"),
    ("nepal+0545", "<+0545>-5:45"),
]


def _mine(ctx, i: int) -> bool:
    return i % ctx.nshards == ctx.shard


def run(ctx) -> None:
    """A codec that raises on a value its own partner produced (or on an in-grid value) has not round-tripped it:
    an exception that escapes from inside the library while a grid is being walked is a refutation, not a
    harness error.  (The deliberate out-of-range probes catch their own refusals.)"""
    from .mon import innermost_lib_frame

    try:
        _run(ctx)
    except Exception as err:  # noqa: BLE001
        where = innermost_lib_frame(err)
        if where == "?":
            raise
        ctx.violate(f"C04|codec-raised|{where}|{type(err).__name__}", "a wire codec raised on a value of its own grid", {"error": repr(err)[:200]})


def _run(ctx) -> None:  # noqa: C901
    from ramses_tx import helpers as h
    from ramses_tx.address import Address, dev_id_to_hex_id, hex_id_to_dev_id

    thorough = not ctx.quick

    # The wire carries local wall-clock fields: no codec may depend on the zone the host happens to be in.  Each
    # shard walks its grids under one of several zones (most observe DST, one is on a 45-minute offset), so every
    # date-time grid meets the hour a zone skips in spring and the one it repeats in autumn.
    tz_name, tz = TZS[ctx.shard % len(TZS)]
    os.environ["TZ"] = tz
    time.tzset()
    ctx.seen(f"tz.{tz_name}")
    ctx.count(f"tz.{tz_name}")

    # ---------------------------------------------------------------- temperatures
    if _mine(ctx, 0):
        for w in range(65536):
            word = f"{w:04X}"
            ctx.ev()
            try:
                v = h.hex_to_temp(word)
            except ValueError:
                ctx.count("temp.words.undecodable")
                continue
            ctx.count("temp.words")
            if v is None or v is False:
                back = h.hex_from_temp(v)
                if h.hex_to_temp(back) is not v:
                    ctx.violate("C04|hex_temp|sentinel-lost", "a sentinel does not survive", word)
                continue
            ctx.seen(f"temp.dec.{w >> 8:02X}")
            try:
                back = h.hex_from_temp(v)
            except Exception as err:
                ctx.violate(
                    f"C04|hex_from_temp|raises-on-grid|{type(err).__name__}",
                    "encoder refuses a value its decoder produced",
                    {"word": word, "value": v},
                )
                continue
            if back != word:
                ctx.violate(
                    "C04|hex_from_temp|word-not-reproduced",
                    "a temperature word that decodes to a number does not re-encode to the same hex",
                    {"word": word, "value": v, "re-encoded": back},
                )
        ctx.sample({"codec": "temp", "word": "07D0", "value": h.hex_to_temp("07D0")})

    if _mine(ctx, 1):
        for k in range(-27315, 32768):
            if k in (32767, 32511, 12799):  # the sentinel words
                continue
            v = k / 100
            ctx.ev()
            ctx.count("temp.values")
            ctx.seen(f"temp.enc.{k // 256}")
            try:
                back = h.hex_to_temp(h.hex_from_temp(v))
            except Exception as err:
                ctx.violate(
                    f"C04|hex_temp|raises-on-grid|{type(err).__name__}",
                    "round trip of an on-grid temperature raises",
                    {"value": v},
                )
                continue
            if back != v:
                ctx.violate(
                    "C04|hex_from_temp|grid-value-altered",
                    "an on-grid temperature (k/100) does not encode and decode back to itself",
                    {"value": v, "hex": h.hex_from_temp(v), "decoded": back},
                )
        for v in (327.68, 400, 400.0, 655.35, 655.36, 1000.0, -273.16, -300.0, -327.69, -655.36, 1e6):
            ctx.ev()
            ctx.count("temp.out_of_range")
            _wrap_probe(ctx, "hex_from_temp", h.hex_from_temp, h.hex_to_temp, v, 4)

    # ---------------------------------------------------------------- percent
    if _mine(ctx, 2):
        for res in (True, False):
            for b in range(256):
                byte = f"{b:02X}"
                ctx.ev()
                try:
                    v = h.hex_to_percent(byte, high_res=res)
                except ValueError:
                    ctx.count("percent.undecodable")
                    continue
                ctx.count("percent.bytes")
                if v is None:
                    if h.hex_to_percent(h.hex_from_percent(None, high_res=res), high_res=res) is not None:
                        ctx.violate("C04|hex_percent|sentinel-lost", "sentinel lost", byte)
                    continue
                ctx.seen(f"pct.dec.{res}.{b >> 3}")
                back = h.hex_from_percent(v, high_res=res)
                if back != byte:
                    ctx.violate(
                        "C04|hex_from_percent|byte-not-reproduced",
                        "a percent byte that decodes to a number does not re-encode to the same hex",
                        {"byte": byte, "high_res": res, "value": v, "re-encoded": back},
                    )
            top = 200 if res else 100
            for k in range(top + 1):
                v = k / top
                ctx.ev()
                ctx.seen(f"pct.enc.{res}.{k >> 3}")
                back = h.hex_to_percent(h.hex_from_percent(v, high_res=res), high_res=res)
                if back != v:
                    ctx.violate(
                        "C04|hex_from_percent|grid-value-altered",
                        "an on-grid percentage does not encode and decode back to itself",
                        {"value": v, "high_res": res, "decoded": back},
                    )
            for v in (1.005, 1.01, 1.5, 2.0, -0.005, -1.0):
                ctx.ev()
                _wrap_probe(
                    ctx,
                    "hex_from_percent",
                    lambda x, r=res: h.hex_from_percent(x, high_res=r),
                    lambda x, r=res: h.hex_to_percent(x, high_res=r),
                    v,
                    2,
                )

    # ---------------------------------------------------------------- doubles
    if _mine(ctx, 3):
        for factor in (1, 10, 100):
            for w in range(65536):
                word = f"{w:04X}"
                ctx.ev()
                v = h.hex_to_double(word, factor=factor)
                if v is None:
                    if h.hex_to_double(h.hex_from_double(None, factor=factor)) is not None:
                        ctx.violate("C04|hex_double|sentinel-lost", "sentinel lost", word)
                    continue
                ctx.count("double.words")
                ctx.seen(f"dbl.{factor}.{w >> 8:02X}")
                back = h.hex_from_double(v, factor=factor)
                if back != word:
                    ctx.violate(
                        "C04|hex_from_double|word-not-reproduced",
                        "a double word that decodes to a number does not re-encode to the same hex",
                        {"word": word, "factor": factor, "value": v, "re-encoded": back},
                    )
        for v in (65536, 70000, -1, -0.5, 1e9):
            ctx.ev()
            _wrap_probe(ctx, "hex_from_double", h.hex_from_double, h.hex_to_double, v, 4)

    # ---------------------------------------------------------------- flags, bools, text
    if _mine(ctx, 4):
        for lsb in (False, True):
            for b in range(256):
                byte = f"{b:02X}"
                ctx.ev(2)
                ctx.count("flag8.bytes")
                ctx.seen(f"flag8.{lsb}.{b >> 4}")
                bits = h.hex_to_flag8(byte, lsb=lsb)
                if h.hex_from_flag8(bits, lsb=lsb) != byte:
                    ctx.violate("C04|hex_flag8|byte-not-reproduced", "flag byte round trip", byte)
                if sum(bit << (i if lsb else 7 - i) for i, bit in enumerate(bits)) != b:
                    ctx.violate("C04|hex_flag8|bit-order", "bit order is not the documented one", byte)
                want = [(b >> i) & 1 for i in range(8)]
                want = want if lsb else list(reversed(want))
                if h.hex_to_flag8(h.hex_from_flag8(want, lsb=lsb), lsb=lsb) != want:
                    ctx.violate("C04|hex_flag8|bits-not-reproduced", "bit list round trip", want)
                # the decoded value belongs to the caller: what one holder does with it (a parser's
                # payload is handed to applications) must not change what the same byte decodes to next
                snapshot = list(bits)
                for i in range(len(bits)):
                    bits[i] ^= 1
                again = h.hex_to_flag8(byte, lsb=lsb)
                if again != snapshot:
                    ctx.violate("C04|hex_flag8|decode-depends-on-earlier-result", "the same flag byte decodes differently after an earlier result was modified by its holder", {"byte": byte, "lsb": lsb, "first": snapshot, "second": again})
        for v in (True, False, None):
            ctx.ev()
            ctx.seen(f"bool.{v}")
            if h.hex_to_bool(h.hex_from_bool(v)) is not v:
                ctx.violate("C04|hex_bool|value-altered", "boolean round trip", v)
        for byte in ("00", "C8", "FF"):
            ctx.ev()
            if h.hex_from_bool(h.hex_to_bool(byte)) != byte:
                ctx.violate("C04|hex_bool|byte-not-reproduced", "boolean byte round trip", byte)
        alphabet = [chr(c) for c in range(32, 127)]
        for n in range(1, 21):
            for _ in range(300 if ctx.quick else 3000):
                s = "".join(ctx.rng.choice(alphabet) for _ in range(n))
                if s != s.strip():
                    ctx.count("str.blank_edged_skipped")
                    continue
                ctx.ev()
                ctx.count("str.values")
                ctx.seen(f"str.{n}.{s[0]}")
                if h.hex_to_str(h.hex_from_str(s)) != s:
                    ctx.violate("C04|hex_str|text-altered", "printable text round trip", s)
        for c in alphabet:  # every printable character, alone and embedded
            for s in (c, f"a{c}b"):
                if s.strip() != s:
                    continue
                ctx.ev()
                if h.hex_to_str(h.hex_from_str(s)) != s:
                    ctx.violate("C04|hex_str|text-altered", "printable text round trip", s)

    # ---------------------------------------------------------------- date-times (12/14 hex)
    years = range(2019, 2030) if thorough else (2020, 2023, 2024, 2027)
    for yi, year in enumerate(years):
        if not _mine(ctx, 5 + yi):
            continue
        step = 1 if thorough else 7
        start = dt(year, 1, 1)
        n_min = (dt(year + 1, 1, 1) - start) // td(minutes=1)
        extra = []
        if calendar.isleap(year):
            leap = (dt(year, 2, 29) - start) // td(minutes=1)
            extra = list(range(leap - 2, leap + 1442))
        for m in list(range(0, n_min, step)) + extra + [n_min - 1]:
            when = start + td(minutes=m)
            iso = when.isoformat(timespec="seconds")
            ctx.ev()
            ctx.count("dtm.minutes")
            ctx.seen(f"dtm.{year}.{when.month}.{when.day}")
            for dst in (False, True):
                hx = h.hex_from_dtm(when, is_dst=dst)
                if h.hex_from_dtm(iso, is_dst=dst) != hx:
                    ctx.violate("C04|hex_dtm|text-form-differs", "a date-time given as ISO text encodes differently from the same date-time given as an object", {"dtm": iso, "is_dst": dst, "tz": tz_name})
                try:
                    back = h.hex_to_dtm(hx)
                except Exception as err:  # noqa: BLE001
                    back = f"<raised {err!r}>"
                if len(hx) != 12 or back != iso:
                    ctx.violate(
                        "C04|hex_dtm|minute-altered",
                        "a date-time (minute form) does not round-trip",
                        {"dtm": iso, "is_dst": dst, "hex": hx, "decoded": back, "tz": tz_name},
                    )
                sec = (m * 7) % 60
                when_s = when.replace(second=sec)
                hx = h.hex_from_dtm(when_s, is_dst=dst, incl_seconds=True)
                try:
                    back = h.hex_to_dtm(hx)
                except Exception as err:  # noqa: BLE001
                    back = f"<raised {err!r}>"
                if len(hx) != 14 or back != when_s.isoformat(timespec="seconds"):
                    ctx.violate(
                        "C04|hex_dtm|second-altered",
                        "a date-time (second form) does not round-trip",
                        {"dtm": when_s.isoformat(), "is_dst": dst, "hex": hx},
                    )
                if not dst and h.hex_from_dtm(h.hex_to_dtm(hx), incl_seconds=True) != hx:
                    ctx.violate("C04|hex_dtm|hex-not-reproduced", "hex -> dtm -> hex", hx)
        ctx.sample({"codec": "dtm", "dtm": iso, "hex": h.hex_from_dtm(when)})
    if _mine(ctx, 4):
        for incl in (False, True):
            ctx.ev()
            hx = h.hex_from_dtm(None, incl_seconds=incl)
            if h.hex_to_dtm(hx) is not None:
                ctx.violate("C04|hex_dtm|sentinel-lost", "null date-time does not survive", hx)

    # ---------------------------------------------------------------- packed timestamps
    # a century window: every year 2000..2099; all seconds of selected days (thorough: one
    # full day per year + first/last second of every month; quick: strided)
    for year in range(2000, 2100):
        if not _mine(ctx, year):
            continue
        days = [(1, 1), (2, 28), (12, 31)] + ([(2, 29)] if calendar.isleap(year) else [])
        points: list[dt] = []
        for mon in range(1, 13):
            last = calendar.monthrange(year, mon)[1]
            points += [dt(year, mon, 1, 0, 0, 0), dt(year, mon, last, 23, 59, 59)]
        step = 1 if thorough else 97
        for mon, day in days[: (4 if thorough else 2)]:
            base = dt(year, mon, day)
            points += [base + td(seconds=s) for s in range(0, 86400, step)]
        for when in points:
            s = when.strftime("%y-%m-%dT%H:%M:%S")
            ctx.ev()
            ctx.count("dts.seconds")
            ctx.seen(f"dts.{year}.{when.month}")
            try:
                hx = h.hex_from_dts(s)
                back = h.hex_to_dts(hx)
            except Exception as err:
                ctx.violate(
                    f"C04|hex_dts|raises-on-grid|{type(err).__name__}",
                    "a packed fault-log timestamp inside the century window cannot be round-tripped",
                    {"timestamp": s, "error": repr(err)},
                )
                continue
            if back != s or len(hx) != 12:
                ctx.violate(
                    "C04|hex_dts|timestamp-altered",
                    "a packed fault-log timestamp does not round-trip",
                    {"timestamp": s, "hex": hx, "decoded": back},
                )
            elif h.hex_from_dts(back) != hx:
                ctx.violate("C04|hex_dts|hex-not-reproduced", "hex -> dts -> hex", hx)
    if _mine(ctx, 4):
        ctx.ev()
        if h.hex_to_dts(h.hex_from_dts(None)) is not None:
            ctx.violate("C04|hex_dts|sentinel-lost", "null timestamp does not survive", None)

    # ---------------------------------------------------------------- device ids (2^24)
    stride = 1 if thorough else 13
    lo = (1 << 24) * ctx.shard // ctx.nshards
    hi = (1 << 24) * (ctx.shard + 1) // ctx.nshards
    pts = set(range(lo, hi, stride))
    if ctx.quick:  # all type boundaries and both ends of every type block
        for t in range(64):
            for n in (0, 1, 2, 0x3FFFE, 0x3FFFF, 99999, 100000, 199999, 200000, 262143):
                x = (t << 18) + n
                if lo <= x < hi and n < (1 << 18):
                    pts.add(x)
    conv_from, conv_to = Address.convert_from_hex, Address.convert_to_hex
    for x in pts:
        hx = f"{x:06X}"
        ctx.evals += 1
        if x & 1:  # what was asked of an id before must not matter: half the ids are first asked for in the other form
            hex_id_to_dev_id(hx, friendly_id=True)
            conv_from(hx, friendly_id=True)
            ctx.count("ids.friendly_asked_first")
        dev = hex_id_to_dev_id(hx)
        if dev_id_to_hex_id(dev) != hx:
            ctx.violate(
                "C04|dev_id|hex-not-reproduced",
                "6-hex id -> device id -> 6-hex id is not the identity",
                {"hex": hx, "dev_id": dev, "back": dev_id_to_hex_id(dev)},
            )
        want = f"{x >> 18:02d}:{x & 0x3FFFF:06d}"
        if dev != want:
            ctx.violate("C04|dev_id|wrong-id", "6-hex id decodes to the wrong tt:nnnnnn", {"hex": hx, "got": dev})
        # the 'friendly' text form (CTL:145038, ' 27:000001') is accepted by the same encoders: it must lead
        # back to the same hex, or be refused - never to another device
        if x != 0xFFFFFE:  # (the null device's friendly form is a label, not an id)
            for nm, to_f, from_f in (("hex_id_to_dev_id/dev_id_to_hex_id", hex_id_to_dev_id, dev_id_to_hex_id), ("Address.convert_from_hex/convert_to_hex", conv_from, conv_to)):
                fr = to_f(hx, friendly_id=True)
                try:
                    back = from_f(fr)
                except Exception:  # noqa: BLE001
                    ctx.count("ids.friendly.refused")
                    continue
                ctx.count("ids.friendly")
                if back != hx:
                    ctx.violate(
                        f"C04|{nm.split('/')[1]}|friendly-form-decodes-to-another-device",
                        "a 6-hex id rendered in the friendly form is read back by the library's own encoder as a different device",
                        {"hex": hx, "friendly": fr, "back": back},
                    )
        if hex_id_to_dev_id(hx) != want or conv_from(hx) != want:
            ctx.violate(
                "C04|dev_id|decode-depends-on-earlier-call",
                "a 6-hex id decodes differently once it has been asked for in the friendly form",
                {"hex": hx, "want": want, "got": [hex_id_to_dev_id(hx), conv_from(hx)]},
            )
        dev2 = conv_from(hx)
        if dev2 != dev or conv_to(dev2) != hx:
            ctx.violate(
                "C04|Address.convert|hex-not-reproduced",
                "Address.convert_from_hex/convert_to_hex disagree with the id bijection",
                {"hex": hx, "dev_id": dev2},
            )
    ctx.counters["ids.hex"] += len(pts)
    for t in {x >> 18 for x in pts}:
        ctx.seen(f"id.type.{t:02d}")
    ctx.sample({"codec": "dev_id", "hex": f"{lo:06X}", "dev_id": hex_id_to_dev_id(f"{lo:06X}")})

    if _mine(ctx, 6):  # ids outside the representable range must not wrap silently
        for dev in ("01:262144", "01:262145", "04:999999", "63:262144", "00:300000", "01:-00001", "01:-26214", "04:-00002", "-1:000001"):
            ctx.ev()
            ctx.count("ids.out_of_range")
            for name, fnc, inv in (
                ("dev_id_to_hex_id", dev_id_to_hex_id, hex_id_to_dev_id),
                ("Address.convert_to_hex", conv_to, conv_from),
            ):
                try:
                    hx = fnc(dev)
                except Exception:
                    ctx.count("ids.out_of_range.refused")
                    continue
                try:
                    back = inv(hx)
                except Exception:
                    continue
                if back != dev:
                    ctx.violate(
                        f"C04|{name}|out-of-range-wrapped",
                        "a device id whose number exceeds 18 bits is silently encoded as a different valid device",
                        {"dev_id": dev, "hex": hx, "decodes_to": back},
                    )

    # ---------------------------------------------------------------- schedule setpoints
    if _mine(ctx, 7):
        from ramses_rf.system import schedule as sch

        for k in range(500, 3501):
            v = k / 100
            ctx.ev()
            ctx.count("sched.setpoints")
            ctx.seen(f"sched.{k // 25}")
            raw = sch._struct_pack(
                {"zone_idx": "01", "schedule": []},
                {"day_of_week": 3, "switchpoints": []},
                {"time_of_day": "06:30", "heat_setpoint": v},
            )
            idx, dow, tod, val = sch._struct_unpack(raw)
            if (idx, dow, tod) != (1, 3, 390) or val / 100 != v:
                ctx.violate(
                    "C04|schedule._struct_pack|setpoint-altered",
                    "a schedule setpoint on the 0.01 grid is not packed/unpacked to itself",
                    {"setpoint": v, "unpacked": val / 100},
                )


def _wrap_probe(ctx, name, enc, dec, v, width) -> None:
    """Out-of-range value: refused, or round-trips; never a *different valid* value."""
    try:
        hx = enc(v)
    except Exception:
        ctx.count(f"{name}.out_of_range.refused")
        return
    well_formed = (
        isinstance(hx, str)
        and len(hx) == width
        and all(c in "0123456789ABCDEF" for c in hx)
    )
    if not well_formed:
        ctx.count(f"{name}.out_of_range.malformed_hex")
        ctx.info.setdefault("malformed_out_of_range", []).append({"fn": name, "value": v, "hex": hx})
        return
    try:
        back = dec(hx)
    except Exception:
        return
    if isinstance(back, (int, float)) and not isinstance(back, bool) and back != v:
        ctx.violate(
            f"C04|{name}|out-of-range-wrapped",
            "a value outside the representable range is silently encoded as a different valid value",
            {"value": v, "hex": hx, "decodes_to": back},
        )
