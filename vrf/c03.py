"""C03 — command builders emit valid frames of the advertised verb/code that decode back.

Builder-contract monitor over every entry of CODE_API_MAP, with the argument tables of
vrf/api_args.py (in-domain sweeps and out-of-domain probes alike).  For every call that
*returns* a command:
  (1) its verb|code is the key it is registered under;
  (2) the library's own decoder accepts it (Message._from_cmd);
  (3) the decoded payload carries each value that was asked for, to wire resolution.
A call that raises is a refusal, which the property always allows.
"""

from __future__ import annotations

from typing import Any

from . import api_args
from .mon import innermost_lib_frame

PID = "C03"
LEVEL = "exploration"
SHARDS = {"quick": 8, "thorough": 16}
WALL_LIMIT = {"quick": 600, "thorough": 3600}
RULE = (
    "calls = per-constructor argument tables (zone/dhw/domain indexes in and out of range, temperatures "
    "on the 0.01 grid and beyond, mode x until x duration matrices, datetimes incl. leap days / DST flag / "
    "year boundaries, names, fan modes/params, all 256 OpenTherm ids, fragment numbers/counts, bind "
    "offers/accepts/confirms with code lists, idx and oem codes) for all 45 API-map entries. Distinct = "
    "(api key, outcome class refused/ok/violating clause, argument label class); a call that is refused "
    "is counted but only calls that return a command exercise the oracle."
)
ASSUMPTIONS = [
    "an RQ whose decoded payload is {} by design carries its index on the wire: the index is then compared with the frame bytes",
    "text is compared modulo the padding the wire format strips (leading/trailing blanks)",
    "mode-name tables (zone/system/fan) are the library's own published maps (data, not the code under test)",
    "temporary_override without 'until' is documented to be sent as advanced_override",
    "values that collide with a wire sentinel (327.67 = 7FFF, 0xFF fragment counts ...) are not in any constructor's domain and are not probed (cf. C04)",
    "set_fan_mode's decoded mode is compared for the src_id addressing scheme only (the seqn scheme is decoded with another vendor's table)",
]
REQUIRED = {"calls": 1000, "returned": 500, "refused": 100, "decoded": 300}


def expected_matches(exp: Any, got: Any, ctx_tables: dict[str, Any]) -> bool:
    if callable(exp):
        try:
            return bool(exp(got))
        except Exception:  # noqa: BLE001
            return False
    if isinstance(exp, tuple):
        kind = exp[0]
        if kind == "idx":
            i = exp[1]
            if isinstance(i, bool) or i is None or isinstance(i, float):
                return False
            if isinstance(i, int):
                return got == f"{i:02X}"
            s = str(i).upper()
            return got == ("FA" if s == "HW" else s) or (s in ("HW", "FA") and got == "HW")
        if kind == "t":
            v = exp[1]
            if v is None:
                return got is None
            return api_args.near(got, v, 0.005)
        if kind == "r":
            v, tol = exp[1], exp[2]
            if v is None:
                return got is None
            return api_args.near(got, v, tol)
        if kind == "name":
            return isinstance(got, str) and got == str(exp[1]).strip()
        if kind == "fan":
            m = exp[1]
            table = ctx_tables["fan"]
            if m is None:
                m = "00"
            if isinstance(m, int):
                m = f"{m:02X}"
            want = table.get(m, m)
            return got == want
        if kind == "sysmode":
            m = exp[1]
            table = ctx_tables["sys"]
            if m is None:
                m = "00"
            if isinstance(m, int):
                m = f"{m:02X}"
            want = table.get(m, m)
            return got == want
        if kind in ("bind_offer", "bind_accept", "bind_confirm"):
            _, codes, src, extra = exp
            if codes is None or codes == []:
                kodes: list[str] = []
            elif isinstance(codes, str):
                kodes = [codes]
            else:
                kodes = list(codes)
            if kind == "bind_offer":
                want = [["00", c, src] for c in kodes if c not in ("1FC9", "10E0")]
                if extra:
                    want.append([extra, "10E0", src])
                want.append(["00", "1FC9", src])
            elif kind == "bind_accept":
                want = [[extra or "00", c, src] for c in kodes]
            else:
                want = [[extra or "00"]] if not kodes else [[extra or "00", kodes[0], src]]
            return got == want
        return False
    return got == exp


def run(ctx) -> None:
    from ramses_tx import exceptions as exc
    from ramses_tx.command import CODE_API_MAP, Command
    from ramses_tx.const import SYS_MODE_MAP
    from ramses_tx.message import Message
    from ramses_tx.ramses import _22F1_MODE_ORCON

    tables = {"fan": dict(_22F1_MODE_ORCON), "sys": {k: v for k, v in SYS_MODE_MAP.items()} if hasattr(SYS_MODE_MAP, "items") else dict(api_args.SYS_MODES)}
    if not tables["sys"]:
        tables["sys"] = dict(api_args.SYS_MODES)
    rng = ctx.rng
    n = 40 if ctx.quick else 5000
    keys = sorted(CODE_API_MAP)
    ctx.info["api_keys"] = len(keys)
    for ki, key in enumerate(keys):
        if ki % ctx.nshards != ctx.shard:
            continue
        want_verb, want_code = key.split("|")
        gen = []
        try:
            # the controller addressed: an evohome (01:) and a programmer (23:, e.g. a second-DHW-valve controller) -
            # the argument tables name it through api_args.CTL, read when the call is made
            for ctl in ("01:145038", "23:100224"):
                api_args.CTL = ctl
                for thunk, expect, label in api_args.calls(key, rng, Command, n if ctl[:2] == "01" else max(8, n // 4)):
                    gen.append((lambda thunk=thunk, ctl=ctl: (setattr(api_args, "CTL", ctl), thunk())[1], expect, f"{label} ctl={ctl[:2]}" if ctl[:2] != "01" else label))
        except KeyError:
            ctx.inconclusive_because(f"no argument table for API-map entry {key}")
            continue
        finally:
            api_args.CTL = "01:145038"
        for thunk, expect, label in gen:
            ctx.ev()
            ctx.count("calls")
            try:
                cmd = thunk()
            except Exception:  # noqa: BLE001 - any exception is a refusal
                ctx.count("refused")
                ctx.seen(f"{key}|refused|{label[:12]}")
                continue
            ctx.count("returned")
            witness = {"api": key, "call": label, "frame": str(cmd)}
            if cmd.verb != want_verb or cmd.code != want_code:
                ctx.violate(
                    f"C03|{key}|wrong-verb-or-code",
                    "a constructor returns a command whose verb/code is not the one it is registered under in the API map",
                    {**witness, "got": f"{cmd.verb}|{cmd.code}"},
                )
                ctx.seen(f"{key}|wrong-verb")
                continue
            try:
                msg = Message._from_cmd(cmd)
            except (exc.PacketInvalid, ValueError) as err:
                why = "schema-regex" if "match" in str(err) else "verb-code" if "verb/code" in str(err) else "parser"
                vkey = f"C03|{key}|decoder-rejects|{why}"
                # two shared-cause classes get one mechanism key each, whatever the constructor
                asked_idx = [e[1] for e in expect.values() if isinstance(e, tuple) and e[0] == "idx"]
                if any(i in (0xFA, "FA", "HW") for i in asked_idx) and want_code != "0404":
                    vkey = "C03|zone-indexed constructors|decoder-rejects|dhw-alias-index-FA"
                elif any(k == "dhw_idx" for k in expect) and any(isinstance(i, int) and 2 <= i <= 15 for i in asked_idx):
                    vkey = "C03|dhw constructors|decoder-rejects|dhw-idx-above-01"
                if key == " W|1100":  # one root cause: the constructor validates none of its numeric arguments
                    vkey = "C03| W|1100|decoder-rejects|unvalidated-args"
                ctx.violate(
                    vkey,
                    "a constructor returned a frame that the library's own decoder rejects",
                    {**witness, "error": str(err)[:160] or type(err).__name__},
                )
                ctx.seen(f"{key}|rejected|{why}")
                continue
            except Exception as err:  # noqa: BLE001
                ctx.violate(
                    f"C03|{key}|decoder-raises|{type(err).__name__}|{innermost_lib_frame(err)}",
                    "decoding a constructor's own frame raises",
                    {**witness, "error": repr(err)[:160]},
                )
                continue
            ctx.count("decoded")
            payload = msg.payload if isinstance(msg.payload, dict) else {"bindings": msg.payload}
            bad = None
            for k, exp in expect.items():
                if k not in payload:
                    if isinstance(exp, tuple) and exp[0] == "idx" and cmd.verb == "RQ" and k in ("zone_idx", "dhw_idx", "domain_id"):
                        # by design an RQ may decode to {} (or without its index): the index is on the wire
                        if expected_matches(exp, cmd.payload[:2], tables):
                            continue
                        bad = (k, exp, f"wire:{cmd.payload[:2]}")
                        break
                    if callable(exp) and expected_matches(exp, None, tables):
                        continue  # an absent key reads as None
                    bad = (k, exp, "<absent>")
                    break
                if not expected_matches(exp, payload[k], tables):
                    bad = (k, exp, payload[k])
                    break
            if bad:
                k, exp, got = bad
                ctx.violate(
                    f"C03|{key}|value-differs|{k}",
                    "the decoded payload of a constructor's frame does not carry the value that was passed in",
                    {**witness, "field": k, "asked": repr(exp)[:80] if not callable(exp) else "(see call)", "decoded": got, "payload": payload},
                )
                ctx.seen(f"{key}|differs|{k}")
            else:
                ctx.seen(f"{key}|ok|{label[:10]}")
                if len(ctx.samples) < 6 and ctx.evals % 41 == 0:
                    ctx.sample({**witness, "decoded": payload})
