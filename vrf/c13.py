"""C13 — no traffic can break the gateway: views always answer, the engine keeps running.

A real Gateway (file-sourced, and on a fake serial port with sending enabled) is fed packet
histories derived from the recorded logs (deletion, duplication, windowed reordering, splicing
between systems, field mutation inside the schema regexes).  Monitors, after every k-th packet:

 (1) views   : gwy.schema/params/status/known_list/_config/get_state() and schema/params/status/
               traits of every device, system, zone and DHW return without raising;
 (2) engine  : after get_state() and after _restore_cached_packets() - own snapshot, corrupted
               snapshot, cancelled half-way; returned or raised - the engine is as before
               (not paused, same message handler, same read-only flag, same discovery flag,
               transport reading), a marker packet put on the wire afterwards is handled end-to-end
               (a thermostat's temperature changes), and (port gateway) a command is written;
 (3) foreign : after traffic of other systems is spliced in, the known controller is still a
               system of the gateway, has not lost a zone, and a fresh zone temperature from it is
               reported.
"""

from __future__ import annotations

import asyncio
from typing import Any

from . import air as airmod, harness, hist, vloop
from .boundary import clocks_patched
from .mon import innermost_lib_frame

PID = "C13"
LEVEL = "exploration"
SHARDS = {"quick": 16, "thorough": 16}
WALL_LIMIT = {"quick": 900, "thorough": 5400}
RULE = (
    "histories = one recorded system log (window) x {delete, duplicate, windowed reorder, splice with another "
    "system / HVAC / binding log, field mutation inside the schema regex with extreme values}, re-timed to "
    "increasing timestamps; eavesdropping on/off; file gateway and port gateway; views read every k-th packet "
    "and snapshot/restore (own, corrupted, cancelled) invoked at seeded points. Distinct = (base log, operation "
    "set, foreign log, stack, eavesdrop)."
)
ASSUMPTIONS = [
    "the file gateway is fed through its real transport's _frame_read() (the function every transport calls for a received line); the port gateway through a fake serial port on a virtual clock",
    "the marker is a 30C9 from a dedicated thermostat id (34:000999) that no log uses",
    "the port gateway runs with the library's own debug switch for the duty-cycle limiter on (transmit regulation is C11's subject; the bucket is process-global and wall-clock driven)",
    "exceptions reaching the event-loop handler from deferred entity handlers are recorded as information (the statement judges views and the engine)",
]
REQUIRED = {"ops.get_state_while_link_down": 3, "ops.restore.overlap": 5, "views.after_tx_quiet_period": 3, "histories": 16, "views.read": 2000, "ops.get_state": 50, "ops.restore": 50, "markers.handled": 50, "port.sends": 3, "foreign.checked": 3}

MARKER_DEV = "34:000999"
GWY_ID = "18:006402"


def vkey(kind: str, err: BaseException) -> str:
    return f"C13|view-raises|{kind}|{type(err).__name__}|{innermost_lib_frame(err)}"


def read_views(ctx, gwy, trail: list[str], where: str) -> None:
    """Clause (1): every public view returns."""

    def attempt(kind: str, fn, who: str) -> Any:
        ctx.count("views.read")
        try:
            return fn()
        except Exception as err:  # noqa: BLE001
            ctx.violate(
                vkey(kind, err),
                f"reading {kind} raised {type(err).__name__}",
                {"entity": who, "error": repr(err)[:200], "at": where, "last_packets": trail[-6:]},
            )
            return None

    attempt("gwy.schema", lambda: gwy.schema, "gwy")
    attempt("gwy.params", lambda: gwy.params, "gwy")
    attempt("gwy.status", lambda: gwy.status, "gwy")
    attempt("gwy.known_list", lambda: gwy.known_list, "gwy")
    attempt("gwy._config", lambda: gwy._config, "gwy")
    for dev in list(gwy.devices):
        for v in ("schema", "params", "status", "traits"):
            attempt(f"device.{v}", lambda d=dev, v=v: getattr(d, v), f"{dev.id} ({type(dev).__name__})")
    for tcs in attempt("gwy.systems", lambda: list(gwy.systems), "gwy") or []:
        for v in ("schema", "params", "status", "traits"):
            attempt(f"system.{v}", lambda t=tcs, v=v: getattr(t, v), f"{tcs.id}")
        for zone in list(tcs.zones):
            for v in ("schema", "params", "status"):
                attempt(f"zone.{v}", lambda z=zone, v=v: getattr(z, v), f"{zone.id}")
        if tcs.dhw:
            for v in ("schema", "params", "status"):
                attempt(f"dhw.{v}", lambda z=tcs.dhw, v=v: getattr(z, v), f"{tcs.dhw.id}")


def engine_state(gwy) -> dict[str, Any]:
    tr = gwy._transport
    return {
        "paused": gwy._engine_state is not None,
        "handler": getattr(gwy._protocol._msg_handler, "__qualname__", repr(gwy._protocol._msg_handler)),
        "read_only": gwy._disable_sending,
        "disable_discovery": gwy.config.disable_discovery,
        "reading": tr.is_reading() if tr else None,
    }


class Rig:
    """One gateway + the way packets reach it."""

    def __init__(self, loop, ctx, stack: str, eavesdrop: bool, cfg: dict[str, Any] | None = None, lists: dict[str, Any] | None = None):
        self.loop, self.ctx, self.stack, self.eavesdrop = loop, ctx, stack, eavesdrop
        self.cfg = cfg
        self.full_gaps = ctx.rng.random() < 0.25
        self.lists = lists or {"mode": "none", "known_list": {}, "block_list": {}}
        self.gwy: Any = None
        self.air: airmod.Air | None = None
        self.trail: list[str] = []
        self.fed: list[tuple[str, str]] = []  # (receive time, frame) of everything put on the wire
        self.n_marker = 0
        self.clock_us = 0

    async def start(self) -> None:
        import copy

        cfg = dict(self.cfg) if self.cfg else {"disable_discovery": True, "enable_eavesdrop": self.eavesdrop}
        lists = copy.deepcopy({k: v for k, v in self.lists.items() if k != "mode" and v})
        if self.stack == "file":
            self.gwy = harness.file_gateway([], config=cfg, **lists)
            await asyncio.wait_for(self.gwy.start(), timeout=30)
        else:
            self.air = airmod.Air(self.loop)
            self.gwy = await harness.start_port_gateway(self.loop, self.air, GWY_ID, config=cfg, **lists)

    async def feed(self, dtm: str, frame: str) -> None:
        self.trail.append(frame)
        if self.stack == "file":
            self.fed.append((dtm, frame))
        if self.stack == "file":
            self.last_dtm = dtm
            try:
                self.gwy._transport._frame_read(dtm, frame)
            except Exception as err:  # noqa: BLE001 - the receive path itself is C01's subject
                self.ctx.count("feed.raised")
                self.ctx.info.setdefault("feed_raised", []).append(f"{type(err).__name__}@{innermost_lib_frame(err)}")
            await vloop.drain(self.loop, 6)
        else:
            assert self.air is not None
            port = self.gwy._vrf_port
            await self.wait_gap(dtm)
            self.fed.append((self.loop.now_dt().isoformat(timespec="microseconds"), frame))
            port.stage_line(frame)
            await asyncio.sleep(0.02)
            await vloop.drain(self.loop, 6)

    async def wait_gap(self, dtm: str) -> None:
        """Port stack: let the virtual clock pass the history's own inter-packet gap (minus the 20 ms a read takes)."""
        import datetime as _dt

        try:
            t = _dt.datetime.fromisoformat(dtm)
        except ValueError:
            return
        prev, self.prev_dtm = getattr(self, "prev_dtm", None), t
        if prev is not None and (gap := (t - prev).total_seconds() - 0.02) > 0:
            # the serial transport's write-gap task wakes every 50 ms of (virtual) time, so long gaps
            # cost wall time: most histories cap them at 4 s (beyond every sub-second heuristic),
            # every fourth one lets them pass in full so that messages really age and expire
            # (a gap of many hours is the history's 'old head': always honoured, it is what ages the head)
            await asyncio.sleep(gap if self.full_gaps or gap > 20 * 3600 else min(gap, 4.0))

    def next_dtm(self) -> str:
        import datetime as _dt

        base = _dt.datetime.fromisoformat(getattr(self, "last_dtm", "2024-03-01T12:00:00.000000"))
        self.clock_us += 1
        return (base + _dt.timedelta(milliseconds=self.clock_us)).isoformat(timespec="microseconds")

    async def marker(self, where: str) -> bool:
        """A packet put on the wire now must be handled end-to-end."""
        self.n_marker += 1
        t = 500 + (self.n_marker * 7) % 2500  # 5.00 .. 30.00, changes every time
        frame = f"045  I --- {MARKER_DEV} --:------ {MARKER_DEV} 30C9 003 00{t:04X}"
        await self.feed(self.next_dtm(), frame)
        self.trail.pop()
        dev = self.gwy.device_by_id.get(MARKER_DEV)
        try:
            got = dev.temperature if dev is not None else None
        except Exception as err:  # noqa: BLE001
            got = f"raised {err!r}"
        ok = got == t / 100
        self.ctx.count("markers.handled" if ok else "markers.lost")
        if not ok:
            self.ctx.violate(
                f"C13|engine|packet-not-handled-after|{where}",
                f"a packet received after {where} was not handled (gateway no longer receiving)",
                {"marker": frame, "reported": got, "engine": engine_state(self.gwy), "last_packets": self.trail[-6:]},
            )
        return ok

    async def probe_send(self, where: str) -> None:
        from ramses_tx import Command

        if self.stack != "port" or self.gwy._disable_sending:  # (a listen-only gateway has nothing to send with)
            return
        port = self.gwy._vrf_port
        before = len(port.writes)
        cmd = Command.from_attrs("RQ", "01:145038", "313F", "00")
        try:
            from ramses_tx.const import Priority

            await asyncio.wait_for(self.gwy.async_send_cmd(cmd, max_retries=0, timeout=20, wait_for_reply=False, priority=Priority.HIGHEST), timeout=60)
            err = None
        except Exception as e:  # noqa: BLE001
            err = e
        wrote = len(port.writes) > before
        self.ctx.count("port.sends")
        if err is not None or not wrote:
            self.ctx.violate(
                f"C13|engine|cannot-send-after|{where}|{type(err).__name__ if err else 'no-write'}",
                f"a command sent after {where} was refused or never written (gateway no longer able to send)",
                {"error": repr(err)[:200], "wrote": wrote, "engine": engine_state(self.gwy), "last_packets": self.trail[-6:]},
            )

    async def stop(self) -> None:
        if self.stack == "file":
            try:
                await asyncio.wait_for(self.gwy.stop(), timeout=5)
            except Exception:  # noqa: BLE001
                pass
        else:
            await harness.stop_gateway(self.gwy)
            if self.air:
                self.air.close()


def poller_ends(gwy, ids) -> dict[str, str]:
    """How the named entities' poller tasks ended (for the witness)."""
    ents = list(gwy.devices)
    for tcs in gwy.systems:
        ents += [tcs, *tcs.zones] + ([tcs.dhw] if tcs.dhw else [])
    out = {}
    for e in ents:
        t = getattr(e, "_discovery_poller", None)
        if str(e.id) in ids and t is not None and t.done():
            out[str(e.id)] = "cancelled" if t.cancelled() else repr(t.exception())[:200] + " @ " + (innermost_lib_frame(t.exception()) if t.exception() else "returned")
    return out


def died_sending(gwy, ids) -> set[str]:
    """The named entities whose poller task ended with an exception that came up through a send call: the
    only way a snapshot/restore (which pauses sending) can be what killed it.  A poller that dies of something
    else while the clock moves on during a slow restore (seen: a UFC with no system yet, AttributeError in
    find_latest_msg) would have died at that time anyway - not the operation's doing, not C13's subject."""
    import traceback

    ents = list(gwy.devices)
    for tcs in gwy.systems:
        ents += [tcs, *tcs.zones] + ([tcs.dhw] if tcs.dhw else [])
    out = set()
    for e in ents:
        t = getattr(e, "_discovery_poller", None)
        if str(e.id) in ids and t is not None and t.done() and not t.cancelled() and t.exception() is not None:
            if any("send_cmd" in f.name for f in traceback.extract_tb(t.exception().__traceback__)):
                out.add(str(e.id))
    return out


def live_pollers(gwy) -> set[str]:
    """Entities whose discovery poller task is running (part of 'the gateway running exactly as before')."""
    ents = list(gwy.devices)
    for tcs in gwy.systems:
        ents += [tcs, *tcs.zones] + ([tcs.dhw] if tcs.dhw else [])
    return {str(e.id) for e in ents if (t := getattr(e, "_discovery_poller", None)) is not None and not t.done()}


class SlowDict(dict):
    """A snapshot whose restore takes wall time (a large cache on a slow machine): the clock moves on between
    packets, so timers - discovery polls among them - fall due while the engine is paused."""

    def __init__(self, data: dict[str, str], loop, step: float) -> None:
        super().__init__(data)
        self._loop, self._step = loop, step

    def items(self):  # type: ignore[no-untyped-def,override]
        for kv in super().items():
            self._loop._vt += self._step
            yield kv


def corrupt_snapshot(rng, pkts: dict[str, str]) -> dict[str, str]:
    items = list(pkts.items())
    out: dict[str, str] = {}
    how = rng.choice(("bad-key", "bad-line", "truncated", "non-str-free", "empty", "mixed"))
    if how == "empty":
        return {}
    for i, (k, v) in enumerate(items):
        r = rng.random()
        if how in ("bad-key", "mixed") and r < 0.15:
            out[rng.choice(("not-a-date", "", "2024-13-45T99:00:00.000000", k[:10]))] = v
        elif how in ("bad-line", "mixed") and r < 0.3:
            out[k] = rng.choice(("", "garbage", v[:20], v + "ZZ", "045 XX" + v[6:], v.replace(" ", "", 1)))
        elif how == "truncated" and i > len(items) // 2:
            break
        else:
            out[k] = v
    return out


async def snapshot_ops(rig: Rig, rng) -> None:
    """Clause (2)."""
    ctx, gwy = rig.ctx, rig.gwy
    before = engine_state(gwy)

    def engine_check(where: str) -> bool:
        after = engine_state(gwy)
        if not before["reading"]:  # a flag that was never set cannot be "lost" (serial transports do not maintain it)
            after["reading"] = before["reading"]
        if after != before:
            ctx.violate(
                f"C13|engine|state-changed-by|{where}|" + ",".join(sorted(k for k in before if before[k] != after[k])),
                f"{where} left the engine in a different state than it found it",
                {"before": before, "after": after, "last_packets": rig.trail[-6:]},
            )
            return False
        return True

    # --- get_state
    include_expired = rng.random() < 0.5
    ctx.count("ops.get_state")
    pkts: dict[str, str] | None = None
    try:
        _, pkts = gwy.get_state(include_expired=include_expired)
        outcome = "returned"
    except Exception as err:  # noqa: BLE001
        outcome = "raised"
        ctx.violate(
            vkey("gwy.get_state", err),
            f"get_state() raised {type(err).__name__}",
            {"error": repr(err)[:200], "include_expired": include_expired, "last_packets": rig.trail[-6:]},
        )
    engine_check(f"get_state({outcome})")
    await rig.marker(f"get_state({outcome})")

    # --- restore
    if pkts is None:
        return
    kind = rng.choice(("own", "own", "corrupt", "cancel", "twice", "slow", "overlap"))
    pollers_before = live_pollers(gwy)
    ctx.count("ops.restore")
    ctx.count(f"ops.restore.{kind}")
    payload = corrupt_snapshot(rng, pkts) if kind == "corrupt" else dict(pkts)
    if kind == "slow":
        payload = SlowDict(pkts, rig.loop, rng.choice((0.5, 3.0, 31.0)))
    outcome = "returned"
    try:
        if kind == "cancel":
            task = asyncio.ensure_future(gwy._restore_cached_packets(payload))
            for _ in range(rng.choice((0, 1, 2, 3, 5, 9))):
                await asyncio.sleep(0)
            task.cancel()
            try:
                await task
            except asyncio.CancelledError:
                outcome = "cancelled"
        elif kind == "overlap":
            # an application saves its state (or restores again) while a restore is still running: the second
            # operation may be refused - neither may leave the engine other than it was
            task = asyncio.ensure_future(gwy._restore_cached_packets(payload))
            for _ in range(rng.choice((1, 2, 3, 5, 9))):
                await asyncio.sleep(0)
            inner = rng.choice(("get_state", "get_state", "restore"))
            ctx.count(f"ops.overlap.{inner}")
            try:
                if inner == "get_state":
                    gwy.get_state()
                else:
                    await asyncio.wait_for(gwy._restore_cached_packets(dict(pkts)), timeout=300)
                ctx.count("ops.overlap.inner_returned")
            except Exception:  # noqa: BLE001  (refusing is fine)
                ctx.count("ops.overlap.inner_refused")
            await asyncio.wait_for(task, timeout=300)
        else:
            await asyncio.wait_for(gwy._restore_cached_packets(payload), timeout=300)
            if kind == "twice":
                await asyncio.wait_for(gwy._restore_cached_packets(payload), timeout=300)
    except Exception as err:  # noqa: BLE001  the operation may fail; the engine must not care
        outcome = f"raised {type(err).__name__}"
        ctx.count("ops.restore.raised")
        ctx.info.setdefault("restore_raised", []).append(f"{kind}: {type(err).__name__}@{innermost_lib_frame(err)}")
    await vloop.drain(rig.loop, 8)
    where = f"restore[{kind}]({outcome.split(' ')[0]})"
    engine_check(where)
    dead = pollers_before - live_pollers(gwy)
    dead = {d for d in dead if d in {str(x.id) for x in gwy.devices} | {str(t.id) for t in gwy.systems} | {str(z.id) for t in gwy.systems for z in t.zones}}
    ctx.count("pollers.checked", len(pollers_before))
    if dead - died_sending(gwy, dead):
        ctx.count("pollers.died_of_something_else", len(dead - died_sending(gwy, dead)))
        ctx.info.setdefault("pollers_died_unrelated", []).append(str(poller_ends(gwy, dead - died_sending(gwy, dead)))[:200])
    dead = died_sending(gwy, dead)
    if dead:
        ctx.violate(
            f"C13|engine|discovery-pollers-died-during|{where}",
            f"{where} left the gateway polling fewer entities than before (discovery poller tasks ended)",
            {"dead": sorted(dead)[:6], "ended": poller_ends(gwy, dead), "before": len(pollers_before), "last_packets": rig.trail[-6:], "history": getattr(rig, "meta", None)},
        )
    await rig.marker(where)
    await rig.probe_send(where)


async def run_history(loop: vloop.VirtualLoop, ctx, h: hist.History, stack: str, eavesdrop: bool, trial: int, discovery: bool = False) -> None:
    rng = ctx.rng
    cfg = {"disable_discovery": not discovery, "enable_eavesdrop": eavesdrop}
    if stack == "port" and not discovery and rng.random() < 0.25:
        cfg["disable_sending"] = True  # a listen-only gateway on a live port: snapshots and restores are used there too
        ctx.count("histories.listen_only_port")
    rig = Rig(loop, ctx, stack, eavesdrop, cfg=cfg)
    if discovery:
        ctx.count("histories.discovery_on")
    await rig.start()
    rig.meta = dict(h.meta, stack=stack, eavesdrop=eavesdrop, discovery=discovery, trial=trial)
    gwy = rig.gwy
    lines = h.lines
    k_views = rng.choice((1, 3, 7)) if len(lines) < 80 else rng.choice((5, 11, 23))
    n_ops = rng.choice((1, 2, 3)) if ctx.quick else rng.choice((2, 4, 6))
    op_at = set(rng.sample(range(len(lines)), min(n_ops, len(lines)))) | {len(lines) - 1}

    # clause (3) bookkeeping: the known system = the base log's controller, once it exists
    foreign = "foreign" in h.meta
    base_frames = {f for _, f in hist.system_logs()[h.meta["base"]]}
    home_ctl: str | None = None
    home_zones: set[str] = set()

    for i, (dtm, frame) in enumerate(lines):
        await rig.feed(dtm, frame)
        if foreign and frame in base_frames and gwy.tcs is not None and home_ctl is None:
            home_ctl = gwy.tcs.id
        if home_ctl and frame in base_frames:
            tcs = gwy.system_by_id.get(home_ctl)
            if tcs is not None:
                home_zones |= {z.idx for z in tcs.zones}
        if i % k_views == 0 or i == len(lines) - 1:
            read_views(ctx, gwy, rig.trail, f"packet {i}")
        if i in op_at:
            await snapshot_ops(rig, rng)
            if stack == "port" and rng.random() < 0.15:
                # the serial link drops (dongle unplugged); the application saves its state meanwhile; the link comes
                # back (the same Gateway is started again): the gateway must receive and send as before
                from .boundary import serial_patched

                old_port = gwy._vrf_port
                await gwy.stop()
                try:
                    gwy.get_state()
                    ctx.count("ops.get_state_while_link_down")
                except Exception as err:  # noqa: BLE001
                    ctx.violate(vkey("gwy.get_state", err), f"get_state() raised {type(err).__name__} while the link was down", {"error": repr(err)[:200], "last_packets": rig.trail[-6:]})
                gwy._vrf_port = rig.air.swap_stick(old_port, GWY_ID)
                with serial_patched():
                    await gwy.start()
                await asyncio.sleep(0.3)
                await rig.marker("snapshot while the link was down, then re-start")
                await rig.probe_send("snapshot while the link was down, then re-start")
            if stack == "port" and rng.random() < 0.25:
                # the gateway has transmitted (the probe above) and then stays silent for more than five minutes
                # (discovery off, or nothing due): the views - the transport's Tx statistics among them - still answer
                await asyncio.sleep(rng.choice((299.0, 301.0, 330.0, 1000.0)))
                ctx.count("views.after_tx_quiet_period")
                read_views(ctx, gwy, rig.trail, f"packet {i} + Tx-quiet period")
            if gwy._engine_state is not None or gwy._protocol._msg_handler is None:
                foreign = False  # wedged: recorded above, nothing more to learn from this history
                break

    if foreign and home_ctl:
        ctx.count("foreign.checked")
        tcs = gwy.system_by_id.get(home_ctl)
        if tcs is None:
            ctx.violate("C13|foreign|known-system-dropped", "after traffic of another system the known controller is no longer a system of the gateway", {"history": h.meta, "controller": home_ctl})
        else:
            lost = home_zones - {z.idx for z in tcs.zones}
            if lost:
                ctx.violate("C13|foreign|known-zone-dropped", "after traffic of another system a zone of the known controller disappeared", {"history": h.meta, "lost": sorted(lost)})
            elif tcs.zones:
                z = sorted(tcs.zones, key=lambda z: z.idx)[0]
                t = 1234 + trial % 700
                await rig.feed(rig.next_dtm(), f"045  I --- {home_ctl} --:------ {home_ctl} 30C9 003 {z.idx}{t:04X}")
                try:
                    got = z.temperature
                except Exception as err:  # noqa: BLE001
                    got = f"raised {err!r}"
                if got != t / 100:
                    ctx.violate(
                        "C13|foreign|known-zone-not-tracked",
                        "after traffic of another system a fresh zone temperature from the known controller is not reported",
                        {"history": h.meta, "zone": z.idx, "sent": t / 100, "reported": got},
                    )
                else:
                    ctx.count("foreign.tracked")
    for u in loop.unhandled:
        ctx.info.setdefault("loop_unhandled", []).append(f"{u['type']}@{u['where']}")
    ctx.ev()
    ctx.count("histories")
    ctx.count(f"histories.{stack}")
    ctx.seen(f"{h.sig()}|{stack}|{int(eavesdrop)}")
    if trial < 1:
        ctx.sample({"history": h.meta, "stack": stack, "eavesdrop": eavesdrop, "packets": len(lines), "first": lines[0][1], "last": lines[-1][1], "devices": len(gwy.devices), "systems": [t.id for t in gwy.systems]})
    await rig.stop()


def episode(ctx, local: int, gtrial: int) -> None:
    """One history; a function of (seed, tier, local, gtrial) alone, so a witness can be re-run."""
    import random

    rng = random.Random(f"C13/{ctx.seed}/{gtrial}")
    ctx.rng = rng
    ctx.episode = {"seed": ctx.seed, "tier": ctx.tier, "local": local, "trial": gtrial}
    homes = hist.home_logs()
    stack = "port" if local % 4 == 3 else "file"
    base = homes[gtrial % len(homes)] if local < len(homes) else None
    ops = None
    if local % 4 == 1:
        ops = tuple(op for op in ("delete", "duplicate", "reorder", "mutate") if rng.random() < 0.5) + ("splice",)
    h = hist.build(rng, max_len=60 if ctx.quick else 160, base=base, ops=ops)
    eavesdrop = rng.random() < 0.5
    if stack == "file" and rng.random() < 0.25:
        # a log some of whose lines carry a timezone-aware stamp of the same width ('...:02.000+00', this host is on UTC)
        h = hist.History([(d[:23] + "+00" if len(d) == 26 and rng.random() < 0.3 else d, f) for d, f in h.lines], dict(h.meta, aware_stamps=True))
        ctx.count("histories.with_aware_timestamps")
    harness.reset_transport_globals()
    discovery = stack == "port" and rng.random() < 0.5

    async def go(loop):
        with clocks_patched(entity_dt=(stack == "port"), transport_dt=(stack == "port")), harness.on_demand_write_spacer():
            await run_history(loop, ctx, h, stack, eavesdrop, gtrial, discovery)

    try:
        vloop.run(go)
    except vloop.Starved as err:
        ctx.inconclusive_because(f"history starved the virtual clock: {err} ({h.sig()})")


def run(ctx) -> None:
    for local in range(40 if ctx.quick else 600):
        episode(ctx, local, ctx.shard + local * ctx.nshards)


def replay(data: dict[str, Any]) -> int:
    """Re-run the episodes (seed, tier, trial) the witnesses came from, with all monitors."""
    from .common import Ctx

    bad, seen = 0, set()
    for w in data.get("witnesses", []):
        ep = w.get("episode") if isinstance(w, dict) else None
        if not ep:
            print("witness carries no episode:", str(w)[:300])
            continue
        k = (ep["seed"], ep["tier"], ep["local"], ep["trial"])
        if k in seen:
            continue
        seen.add(k)
        ctx = Ctx(PID, ep["tier"], ep["seed"], 0, 1)
        episode(ctx, ep["local"], ep["trial"])
        hit = [key for key in ctx.violations if key == data.get("key")] or list(ctx.violations)
        for key in hit:
            print("REPRODUCED", key, "-", ctx.violations[key]["what"])
            print("   ", str(ctx.violations[key]["witnesses"][0])[:1200])
            bad += 1
        if not hit:
            print(f"episode {ep}: not reproduced")
    return bad
