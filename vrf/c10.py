"""C10 — device filters are sound and complete: blocked never passes, allowed never drops.

Configuration sweep x packet sweep against a 10-line reference rule written from the statement:

    blocked(id)  = id in block_list
    allowed(id)  = not enforce or id in known_list or id == active gateway
                   or id in {63:262142, --:------}            (+ 18:000730 when sending)
    pass(src,dst) = no address blocked and all addresses allowed
    enforce      = enforce_known_list and known_list is not empty

Observed on the real stacks: (a) a real Gateway on a fake serial port (PortProtocol), packets put
on the virtual air, messages seen by an application handler, devices created, frames written by
async_send_cmd(); (b) a real file-sourced Gateway (ReadProtocol, no active gateway).
"""

from __future__ import annotations

import asyncio
from datetime import timedelta as _td
from typing import Any

from . import air as airmod, harness, vloop
from .boundary import clocks_patched

PID = "C10"
LEVEL = "exploration"
SHARDS = {"quick": 16, "thorough": 16}
WALL_LIMIT = {"quick": 600, "thorough": 3600}
RULE = (
    "configurations = known_list x block_list (disjoint, overlapping, empty, with/without an explicit "
    "'class: HGI' entry, a second HGI) x enforce_known_list on/off x active gateway known/unknown/"
    "block-listed, for port gateways and file gateways; packets = the three address shapes with src/dst drawn "
    "from listed, unlisted, blocked, active-gateway, foreign 18:, 18:000730, 63:262142, --:------ (incl. 000C "
    "payloads naming a blocked device); commands likewise. Distinct = (stack, enforce, src class, dst class, "
    "direction, expected verdict)."
)
ASSUMPTIONS = [
    "the hard-wired 01:000001 entry of the gateway's unwanted list is never used as an id",
    "signature/puzzle frames written by the transport at start-up are not commands (the write ledger is filtered by frame)",
    "'delivered to the application' = a handler registered with Gateway.add_msg_handler()",
]
REQUIRED = {"configs": 10, "rx.expected_pass": 50, "rx.expected_drop": 50, "tx.expected_pass": 10, "tx.expected_refuse": 10, "devices.checked": 20, "startups.with_foreign_signature": 3, "startups.mute_stick": 2, "scenario.live": 5, "scenario.restore": 3, "scenario.reconnect": 2, "restore.lines_held": 20}

ALL, NON, HGI = "63:262142", "--:------", "18:000730"


def ref_pass(src: str, dst: str, cfg: dict[str, Any], sending: bool) -> bool:
    enforce = bool(cfg["enforce"] and cfg["known"])
    for a in {src, dst}:
        if a in cfg["block"]:
            return False
        ok = (not enforce) or a in cfg["known"] or a == cfg["active"] or a in (ALL, NON) or (sending and a == HGI)
        if not ok:
            return False
    return True


def gen_config(rng, stack: str) -> dict[str, Any]:
    pool = ["01:100001", "04:100002", "13:100003", "34:100004", "07:100005", "04:100006", "01:100007", "13:100008"]
    rng.shuffle(pool)
    n_known = rng.choice((0, 2, 3, 4))
    known = pool[:n_known]
    unlisted = pool[n_known : n_known + 2]
    blocked = pool[n_known + 2 : n_known + 2 + rng.choice((0, 1, 2))]
    overlap = rng.random() < 0.25 and known
    if overlap:
        blocked = blocked + [known[0]]  # in both lists: block must win
    active = "18:006402" if stack == "port" else None
    gw_mode = rng.choice(("known-explicit", "known-implicit", "unknown", "two-hgis", "blocked", "other-explicit", "other-explicit-blocked"))
    known_list: dict[str, dict[str, Any]] = {k: {} for k in known}
    block_list: dict[str, dict[str, Any]] = {b: {} for b in blocked}
    foreign = "18:111111"
    if gw_mode == "known-explicit":
        known_list["18:006402"] = {"class": "HGI"}
    elif gw_mode == "known-implicit":
        known_list["18:006402"] = {}
    elif gw_mode == "two-hgis":
        known_list["18:006402"] = {"class": "HGI"}
        known_list["18:222222"] = {"class": "HGI"}
    elif gw_mode == "other-explicit":
        known_list["18:222222"] = {"class": "HGI"}
    elif gw_mode == "other-explicit-blocked":  # the gateway the configuration predicts is also blocked: block wins
        known_list["18:222222"] = {"class": "HGI"}
        block_list["18:222222"] = {}
    elif gw_mode == "blocked":
        block_list["18:006402"] = {}
    return {
        "stack": stack,
        "enforce": rng.random() < 0.6,
        "known": list(known_list),
        "block": list(block_list),
        "known_list": known_list,
        "block_list": block_list,
        "active": active,
        "gw_mode": gw_mode,
        "unlisted": unlisted,
        "listed": known,
        "blocked": blocked,
        "foreign": foreign,
        # how the packets reach the gateway: live; from a saved packet cache at start-up; live after the dongle
        # on the port was swapped for one with another id (the earlier id is then just a foreign 18: device)
        "scenario": rng.choice(("live", "live", "restore", "reconnect")) if stack == "port" else rng.choice(("live", "live", "restore")),
        "old_active": "18:133333",
        # a stick that never echoes the start-up signature: the gateway is never identified, there is no 'active
        # gateway' id, and the placeholder 18:000730 seen in a received packet is just another unlisted id
        "mute_stick": stack == "port" and rng.random() < 0.25,
    }


def classify(a: str, cfg: dict[str, Any]) -> str:
    if a in (ALL, NON, HGI):
        return {ALL: "all", NON: "non", HGI: "placeholder"}[a]
    if a == cfg["active"]:
        return "active" + ("-blocked" if a in cfg["block"] else "")
    if a in cfg["block"]:
        return "blocked" + ("+known" if a in cfg["known"] else "")
    if a in cfg["known"]:
        return "known"
    return "foreign18" if a[:2] == "18" else "unlisted"


def gen_packets(rng, cfg: dict[str, Any], n: int) -> list[tuple[str, str, str]]:
    """[(frame, src, dst)] decodable packets over the three address shapes."""
    ids = list({*cfg["listed"], *cfg["unlisted"], *cfg["blocked"], cfg["foreign"], "18:006402", "18:222222"})
    if cfg.get("scenario") == "reconnect":
        ids += [cfg["old_active"]] * 3
    out = []
    k = 0
    for _ in range(n * 3):
        if len(out) >= n:
            break
        k += 1
        a, b = rng.choice(ids), rng.choice(ids + [ALL])
        shape = rng.randrange(4)
        uniq = f"{k % 256:02X}"
        if shape == 0:
            frame, src, dst = f" I --- {a} --:------ {a} 1F09 003 FF07{uniq}", a, a
        elif shape == 1 and a != b and b != ALL:
            frame, src, dst = f" I --- {a} --:------ {b} 1060 003 00{uniq}01", a, b
        elif shape == 2 and a != b:
            frame, src, dst = f"RP --- {a} {b} --:------ 0016 002 00{uniq}", a, b
        elif shape == 3:
            frame, src, dst = f" I --- --:------ --:------ {a} 30C9 003 0007{uniq}", a, NON
        else:
            continue
        out.append((frame, src, dst))
    # a controller naming a blocked (or unlisted) device inside a 000C payload
    ctls = [x for x in cfg["listed"] if x[:2] == "01"]
    named = (cfg["blocked"] or cfg["unlisted"])[:1]
    if ctls and named and named[0][:2] != "18":
        from ramses_tx.address import dev_id_to_hex_id

        hx = dev_id_to_hex_id(named[0])
        out.append((f"RP --- {ctls[0]} 18:006402 --:------ 000C 006 0308{'00'}{hx}", ctls[0], "18:006402"))
        cfg["named_in_000c"] = named[0]
    return out


async def run_config(loop: vloop.VirtualLoop, ctx, cfg: dict[str, Any]) -> None:
    from ramses_tx import exceptions as exc
    from ramses_tx.command import Command
    from ramses_tx.message import Message
    from ramses_tx.packet import Packet

    rng = ctx.rng
    got: list[str] = []
    kwargs: dict[str, Any] = {
        "config": {"disable_discovery": True, "enforce_known_list": cfg["enforce"], "enable_eavesdrop": rng.random() < 0.3},
        "known_list": cfg["known_list"],
        "block_list": cfg["block_list"],
    }
    packets = gen_packets(rng, cfg, 40 if ctx.quick else 60)
    # keep only packets the decoder accepts on their own (the property is about filtering, not decoding)
    ok_packets = []
    for frame, src, dst in packets:
        try:
            Message(Packet.from_port(vloop.EPOCH, f"045 {frame}"))
            ok_packets.append((frame, src, dst))
        except (exc.PacketInvalid, ValueError):
            ctx.count("rx.undecodable_skipped")
    if cfg.get("mute_stick"):
        cfg["scenario"], cfg["active"] = "live", None
        extra = []
        for k, (a, b) in enumerate(((HGI, HGI), (HGI, cfg["listed"][0] if cfg["listed"] else ALL), ((cfg["listed"] or cfg["unlisted"])[0], HGI))):
            if a == b:
                extra.append((f" I --- {a} --:------ {a} 1F09 003 FF07E{k}", a, a))
            else:
                extra.append((f"RP --- {a} {b} --:------ 0016 002 00E{k}", a, b))
        ok_packets = ok_packets + extra
        ctx.count("startups.mute_stick")

        def mute(kind: str, frame: str, target: str) -> list[float]:
            return [] if kind == "echo" and " 7FFF " in frame else airmod.no_faults(kind, frame, target)

        air = airmod.Air(loop, mute)
    else:
        air = airmod.Air(loop)
    gwy = None
    try:
        with clocks_patched():
            if cfg["stack"] == "port":
                from ramses_rf import Gateway

                from .boundary import serial_patched

                scenario = cfg["scenario"]
                cache = {}
                if scenario == "restore":
                    t0 = vloop.EPOCH.replace(microsecond=0) - _td(seconds=2)
                    cache = {(t0 + _td(milliseconds=7 * i)).isoformat(timespec="microseconds"): f"045 {frame}" for i, (frame, _, _) in enumerate(ok_packets)}
                port = air.add_port(cfg["old_active"] if scenario == "reconnect" else "18:006402")
                if rng.random() < 0.4:
                    # a neighbour's gateway identifies itself (its own signature packet) while ours is doing the same
                    for d in (0.0005, 0.002, 0.0035, 0.03):
                        loop.call_later(d, air.inject, f" I --- {cfg['foreign']} 63:262142 --:------ 7FFF 016 001001A0EEA881B076302E33312E3233", 0.0, "045", False)
                    ctx.count("startups.with_foreign_signature")
                with serial_patched():
                    gwy = Gateway(port.name, **kwargs)
                    gwy.add_msg_handler(lambda m: got.append(str(m._pkt)))
                    await gwy.start(cached_packets=cache) if cache else await gwy.start()
                    if scenario == "reconnect":
                        await asyncio.sleep(0.3)
                        if gwy._protocol.hgi_id != cfg["old_active"]:
                            ctx.inconclusive_because(f"reconnect scenario: first stick not recognised ({gwy._protocol.hgi_id})")
                        await gwy.stop()
                        port = air.swap_stick(port, "18:006402")
                        await gwy.start()
                        await asyncio.sleep(0.3)
                        if gwy._protocol.hgi_id != "18:006402":
                            ctx.inconclusive_because(f"reconnect scenario: second stick not recognised ({gwy._protocol.hgi_id})")
                        ctx.count("reconnects")
                gwy._vrf_port = port
                if scenario != "restore":
                    for frame, _, _ in ok_packets:
                        air.inject(frame, faultable=False)
                        await asyncio.sleep(0.02)
                await asyncio.sleep(0.5)
            else:
                scenario = cfg["scenario"]
                t0 = vloop.EPOCH
                lines = []
                for i, (frame, _, _) in enumerate(ok_packets):
                    lines.append(((t0.replace(microsecond=0)).isoformat(timespec="microseconds")[:-6] + f"{i * 1000:06d}", f"045 {frame}"))
                if scenario == "restore":  # a file gateway started with a packet cache (and an empty log)
                    gwy = harness.file_gateway([], **kwargs)
                    gwy.add_msg_handler(lambda m: got.append(str(m._pkt)))
                    await asyncio.wait_for(gwy.start(cached_packets=dict(lines)), timeout=60)
                else:
                    gwy = harness.file_gateway(lines, **kwargs)
                    gwy.add_msg_handler(lambda m: got.append(str(m._pkt)))
                    await asyncio.wait_for(gwy.start(), timeout=60)
            await vloop.drain(loop)
            ctx.count(f"scenario.{scenario}")
            if scenario == "restore":
                # a restored packet is 'delivered' when the gateway took it into its state: what it holds is what
                # it will report and save again (application handlers are not called during a restore)
                held = [ln.split(" # ")[0].rstrip() for ln in gwy.get_state(include_expired=True)[1].values()]
                ctx.count("restore.lines_held", len(held))
                for frame, src, dst in ok_packets:
                    if any(h.endswith(frame) for h in held):
                        got.append(frame)

            ctx.ev()
            ctx.count("configs")
            cfg_w = {k: cfg[k] for k in ("stack", "enforce", "known", "block", "active", "gw_mode", "scenario", "mute_stick")}
            delivered = set(got)
            restore_enforces = len([k for k, v in cfg["known_list"].items() if v.get("class") == "HGI"]) == 1
            for frame, src, dst in ok_packets:
                want = ref_pass(src, dst, cfg, sending=False)
                ctx.count("rx.expected_pass" if want else "rx.expected_drop")
                ctx.seen(f"{cfg['stack']}|{bool(cfg['enforce'] and cfg['known'])}|{classify(src, cfg)}|{classify(dst, cfg)}|rx|{want}")
                have = frame in delivered
                if have and not want and scenario == "restore" and not restore_enforces and src not in cfg["block"] and dst not in cfg["block"]:
                    # recorded finding: enforcement is switched off for a restore unless the known_list names
                    # exactly one explicit 'class: HGI' gateway (deliberate: the comment in _restore_cached_packets)
                    ctx.violate(
                        "C10|restore|known-list-not-enforced|no-single-explicit-hgi",
                        "with the known list enforced, a cached packet with a non-listed address is restored (and gives rise to a device) when the known_list does not name exactly one explicit HGI",
                        {"config": cfg_w, "frame": frame},
                    )
                elif have and not want:
                    ctx.violate(
                        f"C10|{'restore' if scenario == 'restore' else 'rx'}|delivered-though-filtered|src={classify(src, cfg)}|dst={classify(dst, cfg)}",
                        "a packet with a block-listed (or, under enforcement, non-allowed) address was delivered to the application",
                        {"config": cfg_w, "frame": frame},
                    )
                elif want and not have and scenario != "restore":  # (what a restore keeps also depends on verb and age)
                    ctx.violate(
                        f"C10|rx|dropped-though-allowed|src={classify(src, cfg)}|dst={classify(dst, cfg)}",
                        "a packet all of whose addresses are allowed was not delivered (filtering over-blocks)",
                        {"config": cfg_w, "frame": frame},
                    )
            # devices: none for a blocked / non-allowed id
            enforce = bool(cfg["enforce"] and cfg["known"])
            for dev_id in list(gwy.device_by_id):
                ctx.count("devices.checked")
                bad = dev_id in cfg["block"] or (enforce and dev_id not in cfg["known"] and dev_id != cfg["active"])
                if bad:  # (also in a restore that lets packets of non-listed ids through: the gateway's own
                    # second check of the lists refuses to build a device for them)
                    ctx.violate(
                        f"C10|device-created|{classify(dev_id, cfg)}",
                        "a device was created for a block-listed (or, under enforcement, non-allowed) id",
                        {"config": cfg_w, "device": dev_id, "named_in_000c": cfg.get("named_in_000c")},
                    )
            # sending (port stack only)
            if cfg["stack"] == "port" and not cfg.get("mute_stick"):
                dsts = list({*cfg["listed"][:2], *cfg["unlisted"][:1], *cfg["blocked"][:2], cfg["foreign"]}) + ([cfg["old_active"]] * 2 if scenario == "reconnect" else [])
                srcs = [HGI, HGI, "18:006402"] + cfg["listed"][:1] + cfg["blocked"][:1] + cfg["unlisted"][:1]
                for k in range(8 if ctx.quick else 14):
                    src, dst = rng.choice(srcs), rng.choice(dsts)
                    if src == dst:
                        continue
                    payload = f"00{k + 16:02X}"
                    cmd = Command.from_attrs("RQ", dst, "0016", payload, from_id=src)
                    n_before = len(air.tx_log)
                    refused = None
                    try:
                        await gwy.async_send_cmd(cmd, max_retries=0, timeout=1.5, wait_for_reply=False)
                    except exc.ProtocolError as err:
                        refused = str(err)
                    except Exception as err:  # noqa: BLE001
                        refused = f"{type(err).__name__}: {err}"
                    await asyncio.sleep(0.1)
                    written = any(f == str(cmd) for _, _, f in air.tx_log[n_before:])
                    want = ref_pass(src, dst, cfg, sending=True)
                    ctx.count("tx.expected_pass" if want else "tx.expected_refuse")
                    ctx.seen(f"port|{enforce}|{classify(src, cfg)}|{classify(dst, cfg)}|tx|{want}")
                    if written and not want:
                        ctx.violate(
                            f"C10|tx|written-though-filtered|src={classify(src, cfg)}|dst={classify(dst, cfg)}",
                            "a command to or from a block-listed (or non-allowed) device reached the radio",
                            {"config": cfg_w, "cmd": str(cmd)},
                        )
                    elif want and not written and refused and "excluded by device_id filter" in refused:
                        ctx.violate(
                            f"C10|tx|refused-though-allowed|src={classify(src, cfg)}|dst={classify(dst, cfg)}",
                            "a command all of whose addresses are allowed was refused by the device filter",
                            {"config": cfg_w, "cmd": str(cmd), "error": refused[:160]},
                        )
            if ctx.evals <= 1:
                ctx.sample({"config": cfg_w, "packets": [p[0] for p in ok_packets[:4]], "delivered": len(delivered)})
    finally:
        if gwy is not None:
            if cfg["stack"] == "port":
                await harness.stop_gateway(gwy)
            else:
                await gwy.stop()
        air.close()


def run(ctx) -> None:
    n = 20 if ctx.quick else 400
    for i in range(n):
        stack = "port" if i % 3 else "file"
        cfg = gen_config(ctx.rng, stack)
        try:
            vloop.run(run_config, ctx, cfg)
        except vloop.Starved as err:
            ctx.inconclusive_because(f"scenario starved: {err}")
