"""C11 — transmit regulation holds for every send pattern (duty cycle, write spacing, MQTT tokens).

The real PortTransport (on a fake serial port) and the real MqttTransport (on a fake paho client)
run on the virtual clock; the wall clock the limiters read (time.perf_counter as seen by
ramses_tx.transport) follows the virtual clock.  A write-time ledger is kept at both boundaries:

   request  : (virtual time, frame) when a caller enters transport.write_frame()
   written  : (virtual time, bytes) when serial.write() / mqtt publish() is called

Offline oracles over the ledger (all windows, by suffix max/min sweeps):

 serial  (1) bits written in any window [a,b] <= 384 bit/s * (b-a) + 23 040 (one bucket)
             + the bits of the frames already requested and not yet written at a;
         (2) any run of k+1 writes spans at least (k-1) * 0.05 s   (one extra write per window);
         (3) every accepted frame is written exactly once, unaltered, in request order.
 MQTT    (4) publishes in any window <= 160 + (80/60)/s * (b-a) + 1;
         (5) no publish is delayed by more than 1 s; a frame is dropped only when the last minute
             already saw (about) 80 publishes; accepted frames are published once, unaltered,
             in order.
"""

from __future__ import annotations

import asyncio
import json
import time
from typing import Any
from unittest.mock import patch

from . import air as airmod, harness, vloop
from .boundary import FakeMqttClient, clocks_patched, mqtt_patched

PID = "C11"
LEVEL = "exploration"
SHARDS = {"quick": 16, "thorough": 16}
WALL_LIMIT = {"quick": 900, "thorough": 5400}
RULE = (
    "arrival patterns = back-to-back single caller, bursts of 2..200 concurrent callers, steady streams above and "
    "below the limit, long idle then burst, bucket-drain then mixed sizes, random mixes; frame payloads 1..48 bytes; "
    "virtual minutes to hours per pattern; every window of the write ledger is judged. Distinct = (transport, "
    "pattern, size class, whether the limiter made a caller wait)."
)
ASSUMPTIONS = [
    "a frame's size in bits is the library's own deemed size (330 + 10 per character of the length+payload fields): the statement fixes the rate, not the bit count of a frame",
    "time.perf_counter as read by ramses_tx.transport follows the virtual clock (offset so that it never runs backwards between scenarios; every scenario starts after an hour of idle, i.e. with a full bucket)",
    "the limiter's own debug switch is left off; MIN_INTER_WRITE_GAP, DUTY_CYCLE_DURATION, MAX_DUTY_CYCLE_RATE and MAX_TRANSMIT_RATE_TOKENS are the shipped constants",
    "tolerance 1 us on times, 1 bit on sums",
]
REQUIRED = {"serial.scenarios_with_restart": 3, "serial.scenarios_with_sync_cycles": 4, "serial.scenarios": 8, "serial.writes": 400, "serial.waited_for_bucket": 1, "serial.windows": 400, "mqtt.scenarios": 4, "mqtt.scenarios_with_status_flaps": 2, "mqtt.status_flaps": 10, "mqtt.publishes": 200, "mqtt.drops": 1}

RATE, BUCKET, GAP = 38400 * 0.01, 38400 * 0.01 * 60, 0.05
TOKENS, TOKEN_RATE = 80, 80 / 60
TOL = 1e-6
MAX_OFFERS = 500  # per pattern: keeps the ledgers small enough for the all-windows sweeps


class Perf:
    """perf_counter for the library: virtual time plus an offset that only ever grows."""

    offset = time.perf_counter() + 3600.0

    @staticmethod
    def now() -> float:
        loop = vloop.current()
        return Perf.offset + (loop.time() if loop else 0.0)

    @staticmethod
    def next_scenario(loop_end: float) -> None:
        Perf.offset += loop_end + 3600.0


def bits(frame: str) -> int:
    return 330 + 10 * len(frame[46:])


def mk_frame(uid: int, nbytes: int) -> str:
    """A frame of `nbytes` payload bytes, unique through its destination address (payloads may be 1 byte)."""
    payload = (f"{uid:08X}" * 12)[: 2 * nbytes]
    return f" I --- 18:000730 01:{uid % 262143:06d} --:------ 7FFF {nbytes:03d} {payload}"


class Ledger:
    def __init__(self, loop) -> None:
        self.loop = loop
        self.req: list[tuple[float, int, str]] = []  # (t, seq, frame)
        self.done: dict[int, tuple[float, str]] = {}  # seq -> (t, "ok" | exception name | "cancelled")
        self.given_up: set[int] = set()  # requests the application itself withdrew while they were held back
        self.task_seq: dict[Any, int] = {}

    async def offer(self, transport, frame: str) -> None:
        seq = len(self.req)
        self.req.append((self.loop.time(), seq, frame))
        self.task_seq[asyncio.current_task()] = seq
        try:
            await transport.write_frame(frame)
            self.done[seq] = (self.loop.time(), "ok")
        except asyncio.CancelledError:
            if seq in self.given_up:  # (a request cancelled by the harness's own clean-up stays open)
                self.done[seq] = (self.loop.time(), "cancelled")
            raise
        except Exception as err:  # noqa: BLE001
            self.done[seq] = (self.loop.time(), type(err).__name__)

    def give_up(self, task) -> None:  # type: ignore[no-untyped-def]
        seq = self.task_seq.get(task)
        if seq is not None and not task.done():
            self.given_up.add(seq)
            task.cancel()


# ------------------------------------------------------------------ arrival patterns
async def pattern(loop, rng, name: str, led: Ledger, transport, uid: list[int], budget: float) -> None:
    """Offer frames according to `name` for about `budget` virtual seconds."""
    tasks: list[asyncio.Task] = []

    def fire(n: int | None = None) -> None:
        if len(tasks) >= MAX_OFFERS:
            return
        uid[0] += 1
        nb = n or rng.choice((1, 2, 3, 8, 24, 48, rng.randint(1, 48)))
        tasks.append(asyncio.ensure_future(led.offer(transport, mk_frame(uid[0], nb))))

    t_end = loop.time() + budget
    if name == "back-to-back":
        k = 0
        while loop.time() < t_end and (k := k + 1) <= MAX_OFFERS:
            uid[0] += 1
            await led.offer(transport, mk_frame(uid[0], rng.choice((1, 3, 48))))
    elif name == "burst":
        for _ in range(rng.choice((2, 5, 20, 66, 200))):
            fire()
        await asyncio.sleep(budget)
    elif name == "steady-below":
        while loop.time() < t_end:
            fire(rng.choice((1, 2, 3)))
            await asyncio.sleep(rng.choice((1.5, 2.0, 5.0)))
    elif name == "steady-above":
        while loop.time() < t_end:
            fire()
            await asyncio.sleep(rng.choice((0.01, 0.05, 0.2, 0.5)))
    elif name == "idle-then-burst":
        await asyncio.sleep(budget / 2)
        for _ in range(rng.choice((12, 40, 90))):
            fire()
        await asyncio.sleep(budget / 2)
    elif name == "drain-then-mixed":
        for _ in range(18):
            fire(48)  # about one full bucket
        await asyncio.sleep(rng.choice((0.0, 1.0, 20.0)))
        for _ in range(rng.choice((2, 4, 10))):
            fire(rng.choice((48, 1)))
            await asyncio.sleep(rng.choice((0.0, 0.001, 0.3)))
        await asyncio.sleep(budget)
    elif name == "givers-up":
        # callers that withdraw a request while the transport holds it back (write spacing, duty cycle, a sync
        # cycle): what is offered afterwards must still go out
        for _ in range(rng.choice((2, 4, 8))):
            for _ in range(rng.choice((2, 5, 30))):
                fire(rng.choice((1, 3, 48)))
            await asyncio.sleep(rng.choice((0.0, 0.001, 0.01, 0.06, 0.3, 2.0)))
            pending = [t for t in tasks if not t.done()]
            for t in rng.sample(pending, k=min(len(pending), rng.choice((1, 1, 2, 5)))):
                led.give_up(t)
            await asyncio.sleep(rng.choice((0.0, 0.05, 1.0, 10.0)))
            for _ in range(rng.choice((1, 3))):
                fire(rng.choice((1, 3)))
            await asyncio.sleep(min(budget / 8, 30.0))
    else:  # random mix
        while loop.time() < t_end:
            for _ in range(rng.choice((1, 1, 2, 7))):
                fire()
            await asyncio.sleep(rng.choice((0.0, 0.02, 0.05, 0.3, 3.0, 30.0)))
    if tasks:
        await asyncio.wait(tasks, timeout=4 * 3600)
    for t in tasks:
        if not t.done():
            t.cancel()


PATTERNS = ("back-to-back", "burst", "steady-below", "steady-above", "idle-then-burst", "drain-then-mixed", "random-mix", "givers-up")


# ------------------------------------------------------------------ serial
def judge_serial(ctx, name: str, led: Ledger, writes: list[tuple[float, bytes]]) -> None:
    ours = [(t, d.decode("ascii", "replace").rstrip("\r\n")) for t, d in writes if b" 7FFF " in d and b" 18:000730 01:" in d and d[:2] == b" I"]
    accepted = [(t, seq, f) for (t, seq, f) in led.req if led.done.get(seq, (0, "open"))[1] == "ok"]
    n = len(ours)
    ctx.count("serial.writes", n)
    meta = {"pattern": name, "requests": len(led.req), "writes": n}
    # (3) exactly once, unaltered, in order
    want = [f for _, _, f in accepted]
    withdrawn = {f for _, seq, f in led.req if seq in led.given_up}  # (may or may not have reached the port)
    ours = [(t_, f) for t_, f in ours if f not in withdrawn]
    n = len(ours)
    have = [f for _, f in ours]
    ctx.count("serial.requests_withdrawn", len(withdrawn))
    open_ = [seq for _, seq, _ in led.req if seq not in led.done]
    if open_:
        ctx.violate("C11|serial|accepted-frame-never-written", "a write request was still pending hours after it was offered", {**meta, "open": len(open_), "first": led.req[open_[0]][2]})
    if sorted(want) != sorted(have):
        missing = [f for f in want if f not in set(have)][:3]
        extra = [f for f in have if f not in set(want)][:3]
        dup = [f for f in set(have) if have.count(f) > 1][:3]
        kind = "duplicated" if dup else "altered-or-lost"
        ctx.violate(f"C11|serial|exactly-once|{kind}", "the frames written to the port are not exactly the accepted frames, once each and unaltered", {**meta, "missing": missing, "unexpected": extra, "duplicated": dup})
    elif want != have:
        k = next(i for i, (a, b) in enumerate(zip(want, have)) if a != b)
        ctx.violate(
            "C11|serial|order|accepted-frames-overtake",
            "accepted frames were written in a different order than they were offered",
            {**meta, "first_difference_at": k, "offered": [(round(t, 4), bits(f)) for t, _, f in accepted[max(0, k - 1) : k + 3]], "written": [(round(t, 4), bits(f)) for t, f in ours[max(0, k - 1) : k + 3]]},
        )
    if n == 0:
        return
    t = [x[0] for x in ours]
    b = [bits(x[1]) for x in ours]
    # pending bits at each write instant: requested at or before t_i, written at or after t_i
    wtime = {}
    for tw, f in ours:
        wtime.setdefault(f, tw)
    events = sorted([(tr, bits(f), wtime.get(f)) for tr, _, f in accepted if wtime.get(f) is not None])
    pend = []
    for ti in t:
        pend.append(sum(bb for tr, bb, tw in events if tr <= ti + TOL and tw >= ti - TOL))
    # (1) window bits: for all i<=j: P[j+1]-P[i] <= RATE*(t_j-t_i) + BUCKET + pend_i
    P = [0]
    for x in b:
        P.append(P[-1] + x)
    suf = [0.0] * (n + 1)
    suf[n] = float("-inf")
    arg = [n] * (n + 1)
    for j in range(n - 1, -1, -1):
        v = P[j + 1] - RATE * t[j]
        if v >= suf[j + 1]:
            suf[j], arg[j] = v, j
        else:
            suf[j], arg[j] = suf[j + 1], arg[j + 1]
    worst = None
    for i in range(n):
        ctx.count("serial.windows")
        excess = suf[i] - (P[i] - RATE * t[i] + BUCKET + pend[i])
        if excess > 1.0 and (worst is None or excess > worst[0]):
            worst = (excess, i, arg[i])
    if worst:
        excess, i, j = worst
        ctx.violate(
            "C11|serial|duty-cycle|window-over-allowance",
            "the bits written in a time window exceed rate x window + one bucket + the frames pending at its start",
            {**meta, "window": [round(t[i], 4), round(t[j], 4)], "bits": P[j + 1] - P[i], "allowance": round(RATE * (t[j] - t[i]) + BUCKET + pend[i], 1), "pending_bits_at_start": pend[i], "excess_bits": round(excess, 1)},
        )
    # (2) spacing: t_j - t_i >= (j-i-1)*GAP  <=>  h(j) >= h(i) - GAP, h(k) = t_k - GAP*k
    h = [t[k] - GAP * k for k in range(n)]
    smin = [0.0] * (n + 1)
    smin[n] = float("inf")
    sarg = [n] * (n + 1)
    for j in range(n - 1, -1, -1):
        if h[j] <= smin[j + 1]:
            smin[j], sarg[j] = h[j], j
        else:
            smin[j], sarg[j] = smin[j + 1], sarg[j + 1]
    for i in range(n - 1):
        if smin[i + 1] < h[i] - GAP - TOL:
            j = sarg[i + 1]
            ctx.violate(
                "C11|serial|write-gap|too-many-writes-in-window",
                "more than one extra write fell into a window: k+1 writes spanned less than (k-1) x the minimum gap",
                {**meta, "writes": j - i + 1, "span_s": round(t[j] - t[i], 6), "required_s": round((j - i - 1) * GAP, 6), "at": round(t[i], 4)},
            )
            break
    waited = any(led.done[seq][0] - tr > 1.0 for tr, seq, _ in accepted)
    if waited:
        ctx.count("serial.waited_for_bucket")
    ctx.seen(f"serial|{name}|n={'1' if n < 2 else '<20' if n < 20 else '<200' if n < 200 else '200+'}|waited={int(waited)}")


async def serial_scenario(loop: vloop.VirtualLoop, ctx, name: str, trial: int) -> None:
    rng = ctx.rng
    air = airmod.Air(loop, fault=lambda kind, frame, target: [])  # nothing echoed: writes only
    gwy = await harness.start_port_gateway(loop, air, "18:006402", config={"disable_discovery": True})
    await asyncio.sleep(1.0)
    tr = gwy._transport
    port = gwy._vrf_port
    led = Ledger(loop)
    uid = [(trial * 20000 + ctx.shard * 7) % 200000]
    budget = rng.choice((60.0, 300.0, 1800.0) if ctx.quick else (60.0, 600.0, 3600.0, 4 * 3600.0))
    # controllers announcing their sync cycles (the transport holds writes back around each sync): one to
    # three controllers, cycles of a few seconds so that bursts meet many of them, offsets that make the
    # hold-back windows overlap
    syncer = None
    if trial % 2 == 1 or rng.random() < 0.3:
        ctls = [f"01:1{rng.randrange(10000, 99999)}" for _ in range(rng.choice((1, 2, 3)))]
        period = rng.choice((1.7, 3.0, 6.1, 18.5))
        offs = [k * rng.choice((0.03, 0.085, 0.11, 0.4)) for k in range(len(ctls))]

        async def sync_traffic() -> None:
            t0 = loop.time()
            n = 0
            while loop.time() - t0 < min(budget * 2, 900.0):
                for c, off in zip(ctls, offs):
                    loop.call_later(off, air.inject, f" I --- {c} --:------ {c} 1F09 003 FF{int(period * 10):04X}", 0.0, "045", False)
                    n += 1
                await asyncio.sleep(period)
            ctx.count("serial.sync_announcements", n)

        syncer = asyncio.ensure_future(sync_traffic())
        ctx.count("serial.scenarios_with_sync_cycles")
    await pattern(loop, rng, name, led, tr, uid, budget)
    writes = port.writes
    if trial % 3 == 2:
        # the gateway is stopped and started again (an integration reload, a port that dropped): same radio, a new
        # transport - what it transmits is still one stream to the regulation
        from .boundary import serial_patched

        await asyncio.sleep(rng.choice((0.0, 0.2, 2.0)))
        await gwy.stop()
        port2 = air.swap_stick(port, "18:006402")
        with serial_patched():
            await gwy.start()
        await asyncio.sleep(0.3)
        gwy._vrf_port, tr = port2, gwy._transport
        writes = list(port.writes) + port2.writes  # (one list: port2.writes is extended in place below)
        ctx.count("serial.scenarios_with_restart")
        await pattern(loop, rng, rng.choice(("back-to-back", "burst", name)), led, tr, uid, budget / 2)
        writes = list(port.writes) + list(port2.writes)
    elif rng.random() < 0.5:  # a second pattern on the same (now possibly indebted) bucket
        await pattern(loop, rng, rng.choice(PATTERNS), led, tr, uid, budget / 2)
    await asyncio.sleep(5.0)
    if syncer is not None:
        syncer.cancel()
    if trial % 3 == 2:
        writes = list(port.writes) + list(gwy._vrf_port.writes)
    judge_serial(ctx, name, led, list(writes))
    ctx.ev()
    ctx.count("serial.scenarios")
    if trial < 1:
        ours = [(round(t, 3), len(d)) for t, d in port.writes if b" 7FFF " in d and b" 18:000730 01:" in d]
        ctx.sample({"transport": "serial", "pattern": name, "requests": len(led.req), "first_writes(t,len)": ours[:8], "last_write_t": ours[-1][0] if ours else None})
    await harness.stop_gateway(gwy)
    air.close()


# ------------------------------------------------------------------ MQTT
def judge_mqtt(ctx, name: str, led: Ledger, pubs: list[tuple[float, str, str]]) -> None:
    ours = [(t, json.loads(p)["msg"]) for t, topic, p in pubs if '"msg"' in p and " 7FFF " in p and " 18:000730 01:" in p]
    n = len(ours)
    ctx.count("mqtt.publishes", n)
    meta = {"pattern": name, "requests": len(led.req), "publishes": n}
    pub_t = {}
    for t, f in ours:
        pub_t.setdefault(f, t)
    t = [x[0] for x in ours]
    # (4) count in any window
    c = [k - TOKEN_RATE * t[k] for k in range(n)]
    best, barg = float("-inf"), n
    for i in range(n - 1, -1, -1):
        if c[i] >= best:
            best, barg = c[i], i
        # publishes i..barg: (barg - i + 1) <= 2*TOKENS + rate*(t_barg - t_i) + 1
        if best - c[i] + 1 > 2 * TOKENS + 1 + 1e-6:
            ctx.violate("C11|mqtt|tokens|window-over-allowance", "the MQTT publishes in a time window exceed the token allowance", {**meta, "window": [round(t[i], 3), round(t[barg], 3)], "publishes": barg - i + 1, "allowance": round(2 * TOKENS + TOKEN_RATE * (t[barg] - t[i]) + 1, 1)})
            break
    # (5) delays, drops, order
    dropped = 0
    for tr, seq, f in led.req:
        state = led.done.get(seq)
        if state is None:
            ctx.violate("C11|mqtt|accepted-frame-never-written", "an MQTT write request never completed", {**meta, "frame": f})
            continue
        if f in pub_t:
            if pub_t[f] - tr > 1.0 + 1e-3:  # the library's own bound is 'would have to sleep >= 1 s => drop'
                ctx.violate("C11|mqtt|over-budget-write-queued", "an over-budget MQTT write was held for a second or more instead of being dropped", {**meta, "delay_s": round(pub_t[f] - tr, 3), "offered_at": round(tr, 3)})
        elif state[1] == "ok":
            dropped += 1
            recent = sum(1 for x in t if tr - 60.0 < x <= tr + TOL)
            # a request its caller withdrew while it waited for its token has spent that token all the same
            recent += sum(1 for t2, seq2, _ in led.req if seq2 in led.given_up and tr - 61.0 < t2 <= tr + TOL)
            if recent < TOKENS - 2:
                ctx.violate("C11|mqtt|in-budget-write-dropped", "an MQTT write was dropped although the last minute saw fewer publishes than the token budget", {**meta, "offered_at": round(tr, 3), "publishes_in_last_60s": recent})
    ctx.count("mqtt.drops", dropped)
    have = [f for _, f in ours]
    if len(set(have)) != len(have):
        ctx.violate("C11|mqtt|exactly-once|duplicated", "a frame was published twice", meta)
    want_order = [f for _, _, f in led.req if f in pub_t]
    if want_order != have and sorted(want_order) == sorted(have):
        ctx.violate("C11|mqtt|order|accepted-frames-overtake", "accepted frames were published in a different order than they were offered", meta)
    ctx.seen(f"mqtt|{name}|n={'<20' if n < 20 else '<200' if n < 200 else '200+'}|dropped={int(dropped > 0)}")


async def mqtt_scenario(loop: vloop.VirtualLoop, ctx, name: str, trial: int) -> None:
    from ramses_tx.protocol import protocol_factory
    from ramses_tx.transport import transport_factory

    rng = ctx.rng
    protocol = protocol_factory(lambda m: None, disable_sending=False)
    with mqtt_patched():
        task = asyncio.ensure_future(transport_factory(protocol, port_name="mqtt://u:p@127.0.0.1:1883", port_config={}))
        await asyncio.sleep(0)
        await asyncio.sleep(0)
        client = FakeMqttClient.instances[-1]
        client.deliver("RAMSES/GATEWAY/18:017804", b"online")
        tr = await task
    led = Ledger(loop)
    uid = [(trial * 20000 + ctx.shard * 7) % 200000]
    budget = rng.choice((60.0, 300.0, 900.0))
    # the gateway's status topic flaps (the ESP restarts, the broker re-publishes the retained 'online'):
    # the allowance is the transport's, whatever the topic says
    flapper = None
    if trial % 2 == 1 or rng.random() < 0.3:
        every = rng.choice((0.5, 7.0, 40.0))
        repeat_only = rng.random() < 0.3  # 'online' again without an 'offline' in between

        async def flap() -> None:
            n = 0
            while n < 400:
                await asyncio.sleep(every)
                if not repeat_only:
                    client.deliver("RAMSES/GATEWAY/18:017804", b"offline")
                    await asyncio.sleep(rng.choice((0.0, 0.2, 2.0)))
                client.deliver("RAMSES/GATEWAY/18:017804", b"online")
                n += 1
                ctx.count("mqtt.status_flaps")

        flapper = asyncio.ensure_future(flap())
        ctx.count("mqtt.scenarios_with_status_flaps")
    await pattern(loop, rng, name, led, tr, uid, budget)
    if rng.random() < 0.5:
        await pattern(loop, rng, rng.choice(PATTERNS), led, tr, uid, budget / 2)
    await asyncio.sleep(3.0)
    if flapper is not None:
        flapper.cancel()
    judge_mqtt(ctx, name, led, list(client.published))
    ctx.ev()
    ctx.count("mqtt.scenarios")
    if trial < 1:
        ctx.sample({"transport": "mqtt", "pattern": name, "requests": len(led.req), "publishes": len(client.published)})
    tr.close()
    await asyncio.sleep(0.01)


def run(ctx) -> None:
    rng = ctx.rng
    import ramses_tx.transport as tr_mod

    tr_mod._DBG_DISABLE_DUTY_CYCLE_LIMIT = False
    n_serial = 6 if ctx.quick else 60
    n_mqtt = 4 if ctx.quick else 40
    jobs = [("serial", PATTERNS[(ctx.shard + k) % len(PATTERNS)], k) for k in range(n_serial)] + [("mqtt", PATTERNS[(ctx.shard + k) % len(PATTERNS)], k) for k in range(n_mqtt)]
    for kind, name, k in jobs:
        tr_mod._global_sync_cycles.clear()

        async def go(loop, kind=kind, name=name, k=k):
            with clocks_patched(), patch("ramses_tx.transport.perf_counter", Perf.now):
                if kind == "serial":
                    await serial_scenario(loop, ctx, name, k)
                else:
                    await mqtt_scenario(loop, ctx, name, k)

        end = 0.0
        try:
            _, loop = vloop.run(go)
            end = loop.time()
        except vloop.Starved as err:
            ctx.inconclusive_because(f"scenario starved the virtual clock: {err} ({kind}/{name})")
        Perf.next_scenario(end + 24 * 3600.0)
