"""C15 — the schema is always well-formed, re-loadable and structurally consistent.

Over packet histories (as C13, plus conflicting zone claims) with eavesdropping on/off and
max_zones 1..16, and over generated validator-accepted schemas loaded as configuration:

 (1) validator : SCH_GLOBAL_SCHEMAS(shrink(gwy.schema)) accepts the reported schema at every
                 sampled prefix;
 (2) reload    : a fresh Gateway(**schema) reproduces the same controllers, zones (class, sensor,
                 actuators), hot-water subsystem and appliance control;
 (3) structure : each device is under at most one controller and one zone; a zone index is below
                 the configured maximum; the object graph is symmetric
                 (child in parent.childs <=> child._parent is parent);
 (4) no silent move : once a device has a parent (or controller) it never has another one.
"""

from __future__ import annotations

import asyncio
import io
from typing import Any

from . import harness, hist, vloop
from .boundary import clocks_patched
from .c13 import Rig
from .mon import innermost_lib_frame

PID = "C15"
LEVEL = "exploration"
SHARDS = {"quick": 16, "thorough": 16}
WALL_LIMIT = {"quick": 900, "thorough": 5400}
RULE = (
    "histories = recorded log window x {delete, duplicate, reorder, splice, mutate, conflicting zone claims, "
    "zone-update}, eavesdropping on/off, max_zones 1..16, file and port gateways, schema sampled every k-th "
    "packet; plus generated validator-accepted schemas (1-3 controllers, 0-12 zones of any class / sensor type / "
    "0-8 actuators, DHW parts, appliance control, UFH controllers, orphans) loaded as configuration. Distinct = "
    "(base log, operation set, foreign log, stack, eavesdrop, max_zones class) or the generated schema's shape."
)
ASSUMPTIONS = [
    "the re-load comparison is made on shrink()ed schemas and on the items the statement lists (controllers, zones: class/sensor/actuators, stored_hotwater, appliance_control); orphans, UFH circuits and zones about which nothing is known are not compared",
    "generated schemas use each device id once (a consistent configuration)",
    "a device that is both sensor and actuator of the same zone, or both valves of the DHW subsystem, is one role-holder of one parent",
]
REQUIRED = {"histories": 16, "schemas.validated": 300, "reloads": 40, "graph.walks": 300, "parents.tracked": 200, "generated.loaded": 30}


def project(schema: dict[str, Any]) -> dict[str, Any]:
    """The items the statement says a re-load reproduces."""
    out: dict[str, Any] = {}
    for key, tcs in schema.items():
        if not isinstance(tcs, dict) or key[2:3] != ":" or "remotes" in tcs or "sensors" in tcs:
            continue
        zones = {}
        for idx, z in (tcs.get("zones") or {}).items():
            item = {k: (sorted(v) if isinstance(v, list) else v) for k, v in z.items() if k in ("class", "sensor", "actuators") and v}
            if item:
                zones[idx] = item
        out[key] = {
            "zones": zones,
            "stored_hotwater": {k: v for k, v in (tcs.get("stored_hotwater") or {}).items() if v},
            "appliance_control": (tcs.get("system") or {}).get("appliance_control"),
            "ufh_controllers": sorted(tcs.get("underfloor_heating") or {}),  # (its controllers, of either kind)
        }
    return out


def schema_structure(ctx, schema: dict[str, Any], max_zones: int, meta: dict[str, Any]) -> None:
    """Clause (3) on the reported schema."""
    owner: dict[str, str] = {}
    for ctl_id, tcs in schema.items():
        if not isinstance(tcs, dict) or ctl_id[2:3] != ":" or "remotes" in tcs or "sensors" in tcs:
            continue
        ids: set[str] = set()
        zone_of: dict[str, set[str]] = {}
        for idx, z in (tcs.get("zones") or {}).items():
            if int(idx, 16) >= max_zones:
                ctx.violate("C15|structure|zone-idx-beyond-max", "the schema has a zone whose index is not below the configured max_zones", {"zone": idx, "max_zones": max_zones, "controller": ctl_id, "history": meta})
            members = set(z.get("actuators") or [])
            if z.get("sensor"):
                members.add(z["sensor"])
            for m in members:
                if m != ctl_id:
                    zone_of.setdefault(m, set()).add(idx)
            ids |= members
        for dev, zs in zone_of.items():
            if len(zs) > 1:
                ctx.violate("C15|structure|device-in-two-zones", "the schema lists one device under two zones of a controller", {"device": dev, "zones": sorted(zs), "controller": ctl_id, "history": meta})
        # one role per device among the system-level single-holder roles (hot-water sensor / valve, heating valve,
        # appliance control) and the zones
        roles: dict[str, list[str]] = {}
        for role, dev in (tcs.get("stored_hotwater") or {}).items():
            if dev:
                roles.setdefault(dev, []).append(role)
        if (tcs.get("system") or {}).get("appliance_control"):
            roles.setdefault(tcs["system"]["appliance_control"], []).append("appliance_control")
        for dev, zs in zone_of.items():
            if dev in roles:
                roles[dev].append("zone " + sorted(zs)[0])
        for dev, rs in roles.items():
            if len(rs) > 1:
                ctx.violate("C15|structure|device-in-two-roles", "the schema lists one device in two roles of a controller", {"device": dev, "roles": rs, "controller": ctl_id, "history": meta})
        ids |= {v for v in (tcs.get("stored_hotwater") or {}).values() if v}
        if app := (tcs.get("system") or {}).get("appliance_control"):
            ids.add(app)
        ids |= set(tcs.get("orphans") or [])
        ids |= set(tcs.get("underfloor_heating") or {})
        ids.discard(ctl_id)
        for dev in ids:
            if dev in owner and owner[dev] != ctl_id:
                ctx.violate("C15|structure|device-under-two-controllers", "the schema lists one device under two controllers", {"device": dev, "controllers": sorted((owner[dev], ctl_id)), "history": meta})
            owner[dev] = ctl_id


def graph_walk(ctx, gwy, meta: dict[str, Any]) -> None:
    """Clause (3) on the live object graph."""
    ctx.count("graph.walks")
    parents = []
    for tcs in gwy.systems:
        parents.append(tcs)
        parents.extend(tcs.zones)
        if tcs.dhw:
            parents.append(tcs.dhw)
    parents.extend(d for d in gwy.devices if hasattr(d, "circuit_by_id"))
    seen_child: dict[int, Any] = {}
    for p in parents:
        for c in list(getattr(p, "childs", [])):
            if getattr(c, "_parent", None) is not p:
                ctx.violate(
                    "C15|graph|child-listed-by-a-parent-that-is-not-its-parent",
                    "a parent lists a child whose own parent reference points elsewhere",
                    {"parent": str(p), "child": str(c), "child_parent": str(getattr(c, "_parent", None)), "history": meta},
                )
            if id(c) in seen_child and seen_child[id(c)] is not p:
                ctx.violate(
                    "C15|graph|child-of-two-parents",
                    "one device is a child of two parents",
                    {"child": str(c), "parents": [str(seen_child[id(c)]), str(p)], "history": meta},
                )
            seen_child[id(c)] = p
    for d in gwy.devices:
        p = getattr(d, "_parent", None)
        if p is not None and hasattr(p, "childs") and d not in p.childs:
            ctx.violate(
                "C15|graph|parent-does-not-list-child",
                "a device names a parent that does not list it among its children",
                {"device": str(d), "parent": str(p), "history": meta},
            )
    # single-holder roles (appliance control, DHW sensor, DHW / heating valve): a device that believes it holds the
    # role is the one its parent reports - else two devices hold one role and the schema shows only one of them
    for d in gwy.devices:
        p = getattr(d, "_parent", None)
        cid = getattr(d, "_child_id", None)
        if p is None or cid not in ("FC", "F9", "FA"):
            continue
        slot = {"FC": "_app_cntrl", "F9": "_htg_valve", "FA": "_dhw_valve"}[cid]
        if not hasattr(p, slot):
            continue
        ctx.count("graph.role_holders")
        holder = getattr(p, slot)
        # (FA is the index of both the DHW sensor and the DHW valve: either slot will do)
        if holder is not d and not (cid == "FA" and getattr(p, "_dhw_sensor", None) is d):
            ctx.violate(
                f"C15|graph|two-holders-of-one-role|{slot.strip('_')}",
                "a device holds a single-holder role of its parent (its own parent / role reference say so) while the parent reports another device in that role",
                {"device": str(d), "role": slot.strip("_"), "parent": str(p), "parent_reports": str(holder), "history": meta},
            )
    for tcs in gwy.systems:
        for z in tcs.zones:
            s = getattr(z, "sensor", None)
            if s is not None and s is not tcs.ctl and getattr(s, "_parent", None) is not z:
                ctx.violate(
                    "C15|graph|zone-sensor-belongs-elsewhere",
                    "a zone reports a sensor whose own parent is another zone/role",
                    {"zone": str(z), "sensor": str(s), "sensor_parent": str(getattr(s, "_parent", None)), "history": meta},
                )


class MoveMonitor:
    """Clause (4): a parent / controller, once set, never changes."""

    def __init__(self) -> None:
        self.parent: dict[str, str] = {}
        self.ctl: dict[str, str] = {}

    def sample(self, ctx, gwy, meta: dict[str, Any], last: str) -> None:
        for d in gwy.devices:
            p = getattr(d, "_parent", None)
            c = getattr(d, "ctl", None)
            if p is not None:
                ctx.count("parents.tracked")
                pid = str(getattr(p, "id", p))
                old = self.parent.setdefault(d.id, pid)
                if old != pid:
                    ctx.violate("C15|move|device-changed-parent", "a device moved to a different parent", {"device": d.id, "from": old, "to": pid, "after_packet": last, "history": meta})
                    self.parent[d.id] = pid
            if c is not None and c is not d:
                old = self.ctl.setdefault(d.id, c.id)
                if old != c.id:
                    ctx.violate("C15|move|device-changed-controller", "a device moved to a different controller", {"device": d.id, "from": old, "to": c.id, "after_packet": last, "history": meta})
                    self.ctl[d.id] = c.id


def validate(ctx, gwy, meta: dict[str, Any]) -> dict[str, Any] | None:
    from ramses_rf.helpers import shrink
    from ramses_rf.schemas import SCH_GLOBAL_SCHEMAS

    try:
        schema = gwy.schema
    except Exception as err:  # noqa: BLE001  (also C13's subject: a schema that cannot be reported cannot be saved)
        ctx.count("schema.view_raised")
        ctx.violate(
            f"C15|schema-raises|{type(err).__name__}|{innermost_lib_frame(err)}",
            "the gateway's schema could not be obtained (so it can be neither saved nor fed back)",
            {"error": repr(err)[:200], "history": meta},
        )
        return None
    ctx.count("schemas.validated")
    try:
        SCH_GLOBAL_SCHEMAS(shrink(schema))
    except Exception as err:  # noqa: BLE001
        ctx.violate(
            f"C15|validator|rejects-reported-schema|{str(err)[:60].split(' @')[0]}",
            "the schema the gateway reports is rejected by the library's own schema validator",
            {"error": str(err)[:300], "schema": shrink(schema), "history": meta},
        )
        return None
    return schema


async def reload_check(loop, ctx, schema: dict[str, Any], cfg: dict[str, Any], meta: dict[str, Any], generation: int = 1) -> None:
    from ramses_rf import Gateway
    from ramses_rf.helpers import shrink

    ctx.count("reloads")
    fh = io.TextIOWrapper(io.BytesIO(b""), encoding="utf-8")
    gwy_b = None
    try:
        gwy_b = Gateway(None, input_file=fh, config=dict(cfg), **schema)
        await asyncio.wait_for(gwy_b.start(), timeout=60)
        await vloop.drain(loop, 6)
        schema_b = gwy_b.schema
    except Exception as err:  # noqa: BLE001
        detail = [f"{e.msg} @ {e.path}" for e in getattr(err, "errors", [])][:6] or repr(err)[:300]
        ctx.violate(
            f"C15|reload|raises|{type(err).__name__}|{innermost_lib_frame(err)}",
            "feeding the reported schema back into a fresh gateway raised",
            {"error": detail, "schema": shrink(schema), "history": meta},
        )
        schema_b = None
    if schema_b is not None:
        a, b = project(schema), project(schema_b)
        if a != b:
            ctx.violate(
                "C15|reload|schema-not-reproduced",
                "a fresh gateway configured with the reported schema does not reproduce its controllers / zones / hot water / appliance control",
                {"reported": a, "reloaded": b, "history": meta},
            )
        elif generation < 2:
            # what that gateway reports is saved and fed back in turn (the second restart of an installation)
            ctx.count("reloads.second_generation")
            await reload_check(loop, ctx, schema_b, cfg, dict(meta, reload_generation=generation + 1), generation + 1)
    if gwy_b is not None:
        try:
            await asyncio.wait_for(gwy_b.stop(), timeout=5)
        except Exception:  # noqa: BLE001
            pass


async def run_history(loop: vloop.VirtualLoop, ctx, h: hist.History, stack: str, eavesdrop: bool, max_zones: int, trial: int) -> None:
    rng = ctx.rng
    cfg = {"disable_discovery": True, "enable_eavesdrop": eavesdrop, "max_zones": max_zones}
    rig = Rig(loop, ctx, stack, eavesdrop, cfg=cfg)
    rig.full_gaps = False
    await rig.start()
    gwy = rig.gwy
    lines = h.lines
    k = rng.choice((1, 2, 5)) if len(lines) < 80 else rng.choice((4, 9, 17))
    n_reload = 1 if ctx.quick else 3
    reload_at = set(rng.sample(range(len(lines)), min(n_reload, len(lines)))) | {len(lines) - 1}
    mover = MoveMonitor()
    for i, (dtm, frame) in enumerate(lines):
        await rig.feed(dtm, frame)
        meta = dict(h.meta, prefix=i + 1, eavesdrop=eavesdrop, max_zones=max_zones, stack=stack, packets=[f"{d} {f}" for d, f in lines[: i + 1]])
        mover.sample(ctx, gwy, meta, frame)
        if i % k == 0 or i in reload_at:
            schema = validate(ctx, gwy, meta)
            graph_walk(ctx, gwy, meta)
            if schema is not None:
                from ramses_rf.helpers import shrink

                schema_structure(ctx, shrink(schema), max_zones, meta)
                if i in reload_at:
                    await reload_check(loop, ctx, schema, cfg, meta)
    ctx.ev()
    ctx.count("histories")
    ctx.seen(f"{h.sig()}|{stack}|{int(eavesdrop)}|{'<12' if max_zones < 12 else '12' if max_zones == 12 else '>12'}")
    if trial < 1:
        from ramses_rf.helpers import shrink

        ctx.sample({"history": h.meta, "stack": stack, "eavesdrop": eavesdrop, "max_zones": max_zones, "packets": len(lines), "final_schema": shrink(gwy.schema)})
    await rig.stop()


# ------------------------------------------------------------------ generated schemas
ZONE_CLASSES = ("radiator_valve", "zone_valve", "electric_heat", "mixing_valve", "underfloor_heating")


def gen_schema(rng) -> dict[str, Any]:
    n = [100000]

    def dev(typ: str) -> str:
        n[0] += rng.randint(1, 997)
        return f"{typ}:{n[0] % 262143:06d}"

    schema: dict[str, Any] = {}
    ctls = [dev(rng.choice(("01", "01", "23"))) for _ in range(rng.choice((1, 1, 2, 3)))]
    for ctl in ctls:
        tcs: dict[str, Any] = {}
        if rng.random() < 0.6:
            tcs["system"] = {"appliance_control": dev(rng.choice(("10", "13")))}
        if rng.random() < 0.5:
            hw = {}
            if rng.random() < 0.8:
                hw["sensor"] = dev("07")
            if rng.random() < 0.6:
                hw["hotwater_valve"] = dev("13")
            if rng.random() < 0.4:
                hw["heating_valve"] = dev("13")
            if hw:
                tcs["stored_hotwater"] = hw
        zones = {}
        ctl_is_sensor = False
        for idx in rng.sample(range(12), rng.choice((0, 1, 3, 8, 12))):
            z: dict[str, Any] = {}
            klass = rng.choice(ZONE_CLASSES + (None,))
            if klass:
                z["class"] = klass
            if rng.random() < 0.7:
                if rng.random() < 0.1 and not ctl_is_sensor:
                    z["sensor"], ctl_is_sensor = ctl, True  # the controller itself, for one zone
                else:
                    z["sensor"] = dev(rng.choice(("00", "03", "04", "12", "22", "34")))
            acts = []
            for _ in range(rng.choice((0, 1, 1, 2, 8))):
                if klass in ("zone_valve", "electric_heat"):
                    acts.append(dev("13"))
                elif klass == "mixing_valve":
                    acts.append(dev("00"))
                elif klass == "underfloor_heating":
                    break
                else:
                    acts.append(dev("04"))
            if acts:
                z["actuators"] = acts
            zones[f"{idx:02X}"] = z
        if zones:
            tcs["zones"] = zones
        if rng.random() < 0.25:
            tcs["underfloor_heating"] = {dev("02"): {} for _ in range(rng.choice((1, 2, 3, 3)))}  # (the validator allows three)
        if rng.random() < 0.12:
            tcs["orphans"] = [dev("13") for _ in range(rng.choice((1, 2)))]  # a relay bound to the controller, role unknown
        schema[ctl] = tcs
    schema["main_tcs"] = rng.choice(ctls)
    if rng.random() < 0.3:
        schema["orphans_heat"] = [dev(rng.choice(("04", "34", "13", "22")))]
    if rng.random() < 0.2:
        schema["orphans_hvac"] = [dev(rng.choice(("32", "37", "29")))]
    return schema


async def generated_schema(loop: vloop.VirtualLoop, ctx, trial: int) -> None:
    from ramses_rf import Gateway
    from ramses_rf.helpers import shrink
    from ramses_rf.schemas import SCH_GLOBAL_SCHEMAS

    rng = ctx.rng
    for _ in range(20):
        schema = gen_schema(rng)
        try:
            SCH_GLOBAL_SCHEMAS(schema)
            break
        except Exception:  # noqa: BLE001  (generator produced something the validator refuses: not in the quantifier)
            ctx.count("generated.refused_by_validator")
    else:
        return
    meta = {"generated": True}
    cfg = {"disable_discovery": True}
    fh = io.TextIOWrapper(io.BytesIO(b""), encoding="utf-8")
    try:
        gwy = Gateway(None, input_file=fh, config=dict(cfg), **schema)
        await asyncio.wait_for(gwy.start(), timeout=60)
        await vloop.drain(loop, 6)
    except Exception as err:  # noqa: BLE001
        tag = "tcs-orphans|" if any(isinstance(t, dict) and t.get("orphans") for t in schema.values()) else ""
        ctx.violate(
            f"C15|generated|load-raises|{tag}{type(err).__name__}|{innermost_lib_frame(err)}",
            "a validator-accepted, consistent schema could not be loaded as configuration",
            {"error": repr(err)[:300], "schema": schema},
        )
        return
    ctx.count("generated.loaded")
    ctx.ev()
    zs = [len(t.get("zones", {})) for k, t in schema.items() if isinstance(t, dict)]
    ctx.seen(f"gen|ctls={len(zs)}|zones={sum(zs)}|hw={sum('stored_hotwater' in t for t in schema.values() if isinstance(t, dict))}|ufh={sum('underfloor_heating' in t for t in schema.values() if isinstance(t, dict))}")
    reported = validate(ctx, gwy, {"generated": True, "input": schema})
    graph_walk(ctx, gwy, meta)
    if reported is not None:
        schema_structure(ctx, shrink(reported), 12, {"generated": True, "input": schema})
        a, b = project(schema), project(reported)
        if a != b:
            ctx.violate(
                "C15|generated|schema-not-reproduced",
                "a gateway configured with a valid schema reports different controllers / zones / hot water / appliance control",
                {"configured": a, "reported": b},
            )
        await reload_check(loop, ctx, reported, cfg, {"generated": True, "input": schema})
    if trial < 1:
        ctx.sample({"generated_schema": schema})
    try:
        await asyncio.wait_for(gwy.stop(), timeout=5)
    except Exception:  # noqa: BLE001
        pass


def run(ctx) -> None:
    rng = ctx.rng
    n = 100 if ctx.quick else 1000
    homes = hist.home_logs()
    for trial in range(n):
        stack = "port" if trial % 5 == 4 else "file"
        base = homes[(ctx.shard + trial * ctx.nshards) % len(homes)] if trial < len(homes) else None
        h = hist.build(rng, max_len=60 if ctx.quick else 160, base=base)
        eavesdrop = rng.random() < 0.5
        max_zones = rng.choice((12, 12, 12, 1, 4, 8, 11, 13, 16))
        harness.reset_transport_globals()

        async def go(loop, h=h, stack=stack, eavesdrop=eavesdrop, trial=trial, max_zones=max_zones):
            with clocks_patched(entity_dt=(stack == "port")), harness.on_demand_write_spacer():
                await run_history(loop, ctx, h, stack, eavesdrop, max_zones, trial)

        try:
            vloop.run(go)
        except vloop.Starved as err:
            ctx.inconclusive_because(f"history starved the virtual clock: {err} ({h.sig()})")
    for trial in range(60 if ctx.quick else 3000):
        vloop.run(generated_schema, ctx, trial)


def replay(data: dict[str, Any]) -> int:
    """Re-run the witnesses of a replay file (history witnesses: feed the packets, run all monitors)."""
    from .common import Ctx

    bad = 0
    for w in data.get("witnesses", []):
        meta = w.get("history") or {}
        pkts = meta.get("packets") if isinstance(meta, dict) else None
        if not pkts:
            print("witness carries no packet list (generated-schema witness?):", str(w)[:400])
            continue
        lines = [(p[:26], p[27:]) for p in pkts]
        ctx = Ctx(PID, "quick", 0, 0, 1)
        h = hist.History(lines, {"base": meta.get("base", "?"), "ops": meta.get("ops", []), **({"foreign": meta["foreign"]} if "foreign" in meta else {})})
        harness.reset_transport_globals()

        async def go(loop, h=h, meta=meta, ctx=ctx):
            with clocks_patched(entity_dt=(meta["stack"] == "port")), harness.on_demand_write_spacer():
                await run_history(loop, ctx, h, meta["stack"], meta["eavesdrop"], meta["max_zones"], 1)

        vloop.run(go)
        for k, v in ctx.violations.items():
            print("REPRODUCED", k, "-", v["what"])
            bad += 1
        if not ctx.violations:
            print("not reproduced")
    return bad
