"""C14 — state is fresh: attributes reflect the newest live message, stale data ages out.

 (A) expiry thresholds on the real Message._expired, on a controlled clock: for every I/RP message
     kind of the log corpus (lifetime from a committed table, vrf/c14_lifetimes.json; 1F09 from its
     payload countdown 0..6553.5 s) - never expired before its lifetime L, always expired at
     2L + 3 s (+eps) and later, and expired never turns back into not-expired as the clock advances;
 (B) freshness under interleaving, on a real port Gateway (virtual clock): a reference last-writer
     model of (entity, attribute) fed from the same packet stream (frames built by the harness from
     the values) is compared with zone / DHW / system / device attributes after every packet, for
     per-zone and array forms interleaved across zones 00-0B and several devices;
 (C) ageing on the gateway: the clock is advanced; an attribute whose newest message is younger
     than its lifetime still reports it; once 2L+3 s has passed it reads as unknown.
"""

from __future__ import annotations

import asyncio
import datetime as _dt
import json
from pathlib import Path
from typing import Any
from unittest.mock import patch

from . import air as airmod, gen, harness, vloop
from .boundary import clocks_patched
from .mon import innermost_lib_frame

PID = "C14"
LEVEL = "exploration"
SHARDS = {"quick": 16, "thorough": 16}
WALL_LIMIT = {"quick": 900, "thorough": 5400}
RULE = (
    "(A) every I/RP corpus line + sampled 1F09 countdowns x clock offsets {0, L/2, L-eps, L, 2L, 2L+3-eps, 2L+3+eps, "
    "3L+3, 10L+3} on fresh and on re-used message objects; (B) seeded interleavings of 30C9/2309/2349/000A/12B0 "
    "(array and per-zone forms), 10A0/1F41, 2E04, 3150|FC, 0008|FC, TRV 30C9/3150, DHW-sensor 1260, relay 3EF0 "
    "across zones 00-0B and devices, compared with a last-writer model after every packet; (C) clock advanced to "
    "L-eps and 2L+3+eps of the newest message of each attribute. Distinct = (message kind, offset class) for A; "
    "(attribute, form, outcome) for B/C."
)
ASSUMPTIONS = [
    "lifetimes per message kind come from a committed table generated once from the reference tree (tools/mk_c14_lifetimes.py) and reviewed; 1F09 = its payload countdown; 3220 is not judged (lifetime depends on the data-id)",
    "grace = the 3 s the statement calls 'a few seconds'; eps = 10 ms",
    "the harness builds frames from values with its own field encoders (0.01 C, 0.5 %), so the model never goes through the library's decoder",
    "the gateway of parts B/C never sends; its write-spacing task is slowed down (MIN_INTER_WRITE_GAP patched) so that days of virtual time are affordable",
    "an attribute is read twice with a loop drain in between when judging 'reads as unknown' (see the recorded finding on the first read after expiry)",
]
REQUIRED = {"A.messages": 300, "A.points": 3000, "A.1F09": 50, "B.packets": 500, "B.compared": 2000, "C.live_checks": 50, "C.aged_checks": 50, "D.live_checks": 300, "D.aged_checks": 30, "B.restarts": 5, "B.compared_after_restart": 100, "E.compared": 200, "E.aged_checks": 20, "F.checks": 100}

CTL, GWY_ID = "01:145038", "18:006402"
EPS = 0.01
TABLE = json.loads((Path(__file__).parent / "c14_lifetimes.json").read_text())["lifetimes"]


# ------------------------------------------------------------------ (A) thresholds
class StubGwy:
    def __init__(self) -> None:
        self.now = _dt.datetime(2024, 3, 1, 12, 0, 0)

    def _dt_now(self) -> _dt.datetime:
        return self.now


def lifetime_of(pkt) -> tuple[float | None, bool]:
    """(lifetime in seconds or None = cannot expire, known?)"""
    if pkt.code == "1F09":
        if pkt.verb == "RQ":
            return None, False
        return int(pkt.payload[2:6], 16) / 10, True
    key = f"{pkt.code}|{pkt.verb}|{int(bool(pkt._has_array))}"
    if key not in TABLE:
        return None, False
    return TABLE[key], True


def part_a(ctx) -> None:
    from ramses_tx.message import Message
    from ramses_tx.packet import Packet

    rng = ctx.rng
    frames = [(d, f) for d, f in gen.corpus_frames() if f[4:6] in (" I", "RP")]
    rng.shuffle(frames)
    frames = frames[: 700 if ctx.quick else 100000]
    # sync-cycle countdowns across the whole range, all three non-RQ verbs
    for _ in range(60 if ctx.quick else 2000):
        secs = rng.choice((0, 1, 5, 1855, 3000, 65535, rng.randint(0, 65535)))
        verb = rng.choice((" I", " I", "RP", " W"))
        addrs = f"{CTL} --:------ {CTL}" if verb == " I" else (f"{CTL} {GWY_ID} --:------" if verb == "RP" else f"{GWY_ID} {CTL} --:------")
        frames.append(("2024-03-01T12:00:00.000000", f"045 {verb} --- {addrs} 1F09 003 {rng.choice(('FF', '00', 'F8'))}{secs:04X}"))
    gwy = StubGwy()
    for dtm, frame in frames:
        try:
            probe = Message(Packet.from_file(dtm, frame))
        except Exception:  # noqa: BLE001  (not a decodable message: outside the quantifier)
            continue
        L, known = lifetime_of(probe._pkt)
        if not known:
            ctx.count("A.kind_not_in_table")
            continue
        ctx.count("A.messages")
        if probe.code == "1F09":
            ctx.count("A.1F09")
        t0 = probe.dtm
        kind = f"{probe.code}|{probe.verb}|{int(bool(probe._pkt._has_array))}"
        if L is None:  # cannot expire: must never be expired
            offsets = [(0.0, False), (3600.0, False), (30 * 86400.0, False)]
        else:
            offsets = [(0.0, False), (L / 2, False), (L - EPS, False), (L, None), (2 * L, None), (2 * L + 3 - EPS, None), (2 * L + 3 + EPS, True), (3 * L + 3 + EPS, True), (10 * L + 3 + EPS, True)]
        reused = Message(Packet.from_file(dtm, frame))
        reused._gwy = gwy  # type: ignore[assignment]
        was_expired = False
        for off, want in offsets:
            if off < 0:
                continue
            ctx.count("A.points")
            gwy.now = t0 + _dt.timedelta(seconds=off)
            fresh = Message(Packet.from_file(dtm, frame))
            fresh._gwy = gwy  # type: ignore[assignment]
            try:
                got_fresh, got_reused = fresh._expired, reused._expired
            except Exception as err:  # noqa: BLE001
                ctx.violate(f"C14|expiry|raises|{type(err).__name__}|{innermost_lib_frame(err)}", "evaluating a message's expiry raised", {"frame": frame, "offset_s": off, "error": repr(err)[:160]})
                break
            ctx.seen(f"A|{kind}|{'early' if want is False else 'late' if want else 'between'}")
            for how, got in (("fresh", got_fresh), ("reused", got_reused)):
                if want is False and got:
                    ctx.violate(f"C14|expiry|expired-before-lifetime|{kind}", "a message is treated as expired before its lifetime has passed", {"frame": frame, "lifetime_s": L, "age_s": off, "object": how})
                if want is True and not got:
                    ctx.violate(f"C14|expiry|not-expired-after-twice-lifetime|{kind}", "a message is not treated as expired although twice its lifetime plus the grace has passed", {"frame": frame, "lifetime_s": L, "age_s": off, "object": how})
            if was_expired and not got_reused:
                ctx.violate(f"C14|expiry|un-expired|{kind}", "a message that was expired is not expired at a later clock value", {"frame": frame, "lifetime_s": L, "age_s": off})
            was_expired = was_expired or got_reused
        ctx.ev()
        ctx.sample({"part": "A", "frame": frame, "lifetime_s": L}, every=97)


# ------------------------------------------------------------------ (B)/(C) freshness on a gateway
def life(code: str, verb: str, array: bool) -> float | None:
    """Lifetime of a message kind from the committed table (KeyError = harness error, surfaces as inconclusive)."""
    return TABLE[f"{code}|{verb}|{int(array)}"]


def hx_temp(t: float) -> str:
    return f"{int(round(t * 100)):04X}"


class World:
    """Ground truth + frame builders (field layouts written here, not taken from the library)."""

    def __init__(self, rng, n_zones: int) -> None:
        self.rng = rng
        self.zones = [f"{i:02X}" for i in sorted(rng.sample(range(12), n_zones))]
        self.trvs = {z: f"04:1000{int(z, 16):02d}" for z in self.zones}
        self.dhw_sensor, self.bdr = "07:100020", "13:100022"
        self.ufc, self.fan = "02:100030", "32:100040"
        self.model: dict[tuple[str, str], tuple[Any, float, float | None, str]] = {}  # value, vt, lifetime, form

    def schema(self) -> dict[str, Any]:
        return {
            CTL: {
                "zones": {z: {"class": "radiator_valve", "actuators": [self.trvs[z]]} for z in self.zones},
                "stored_hotwater": {"sensor": self.dhw_sensor},
                "system": {"appliance_control": self.bdr},
                "underfloor_heating": {self.ufc: {}},
            },
            "main_tcs": CTL,
            "known_list": {self.fan: {"class": "FAN"}},
        }

    def temp(self) -> float:
        return self.rng.choice((5.0, 35.0, 0.0, round(self.rng.uniform(5, 35), 2), self.rng.randrange(500, 3500) / 100))

    def step(self) -> tuple[str, list[tuple[tuple[str, str], Any, float | None, str]]]:
        """One packet: (frame, [(model key, value, lifetime, form)])."""
        r = self.rng
        kind = r.choice(("30C9a", "30C9s", "2309a", "2309s", "2349", "000Aa", "000As", "12B0", "10A0", "1F41", "2E04", "3150FC", "0008FC", "trv30C9", "trv3150", "dhw1260", "bdr3EF0", "ufc3150FC", "ufc0008FC", "ufc3150a", "fan31D9", "fan31DA"))
        # (a real controller's broadcasts name every zone; episodes with partial ones are kept for the interleaving
        #  clauses but not for the restart clause: of two partial arrays only the later is kept by anybody)
        zs = list(self.zones) if getattr(self, "complete_arrays", False) and len(self.zones) <= 8 else sorted(r.sample(self.zones, r.randint(1, len(self.zones))))
        z = r.choice(self.zones)
        ups: list[tuple[tuple[str, str], Any, float | None, str]] = []
        if kind in ("30C9a", "2309a"):
            code, attr = ("30C9", "temperature") if kind == "30C9a" else ("2309", "setpoint")
            vals = {x: self.temp() for x in zs}
            body = "".join(x + hx_temp(v) for x, v in vals.items())
            frame = f" I --- {CTL} --:------ {CTL} {code} {len(body) // 2:03d} {body}"
            # a one-element broadcast is not an array on the wire: it has the single form's lifetime
            lf = life(code, " I", len(zs) > 1)
            ups = [((f"zone {x}", attr), v, lf, "array" if len(zs) > 1 else "single-I") for x, v in vals.items()]
        elif kind in ("30C9s", "2309s"):
            code, attr = ("30C9", "temperature") if kind == "30C9s" else ("2309", "setpoint")
            v = self.temp()
            frame = f"RP --- {CTL} {GWY_ID} --:------ {code} 003 {z}{hx_temp(v)}"
            ups = [((f"zone {z}", attr), v, life(code, "RP", False), "single-RP")]
        elif kind == "2349":
            v, mode = self.temp(), r.choice(("00", "02"))
            verb, addrs = r.choice(((" I", f"{CTL} --:------ {CTL}"), ("RP", f"{CTL} {GWY_ID} --:------")))
            frame = f"{verb} --- {addrs} 2349 007 {z}{hx_temp(v)}{mode}FFFFFF"
            lf = life("2349", verb, False)
            ups = [((f"zone {z}", "setpoint"), v, lf, "2349"), ((f"zone {z}", "mode"), {"00": "follow_schedule", "02": "permanent_override"}[mode], lf, "2349")]
        elif kind == "000Aa" and len(zs) >= 2:
            # (a one-element ' I' 000A right after an array is, to any receiver, that array's second half:
            #  the library joins them - so the broadcast form is only generated with two or more elements)
            vals = {x: (r.choice((5.0, 10.0, 21.0)), r.choice((21.0, 30.0, 35.0))) for x in zs[:8]}
            body = "".join(f"{x}10{hx_temp(lo)}{hx_temp(hi)}" for x, (lo, hi) in vals.items())
            frame = f" I --- {CTL} --:------ {CTL} 000A {len(body) // 2:03d} {body}"
            lf = life("000A", " I", len(vals) > 1)
            ups = [((f"zone {x}", "config"), v, lf, "array" if len(vals) > 1 else "single-I") for x, v in vals.items()]
        elif kind in ("000As", "000Aa"):
            lo, hi = r.choice((5.0, 10.0)), r.choice((25.0, 35.0))
            frame = f"RP --- {CTL} {GWY_ID} --:------ 000A 006 {z}10{hx_temp(lo)}{hx_temp(hi)}"
            ups = [((f"zone {z}", "config"), (lo, hi), life("000A", "RP", False), "single-RP")]
        elif kind == "12B0":
            v = r.random() < 0.5
            frame = f" I --- {CTL} --:------ {CTL} 12B0 003 {z}{'C800' if v else '0000'}"
            ups = [((f"zone {z}", "window_open"), v, life("12B0", " I", False), "single-I")]
        elif kind == "10A0":
            sp, diff = r.choice((30.0, 50.0, 85.0)), r.choice((1.0, 10.0))
            frame = f"RP --- {CTL} {GWY_ID} --:------ 10A0 006 00{hx_temp(sp)}00{hx_temp(diff)}"
            ups = [(("dhw", "setpoint"), sp, life("10A0", "RP", False), "RP")]
        elif kind == "1F41":
            mode = r.choice(("00", "02"))
            active = r.choice(("00", "01"))
            frame = f" I --- {CTL} --:------ {CTL} 1F41 006 00{active}{mode}FFFFFF"
            ups = [(("dhw", "mode"), ({"00": "follow_schedule", "02": "permanent_override"}[mode], active == "01"), life("1F41", " I", False), "I")]
        elif kind == "2E04":
            mode = r.choice(("00", "01", "02", "03"))
            frame = f" I --- {CTL} --:------ {CTL} 2E04 008 {mode}FFFFFFFFFFFF00"
            ups = [(("system", "system_mode"), {"00": "auto", "01": "heat_off", "02": "eco_boost", "03": "away"}[mode], life("2E04", " I", False), "I")]
        elif kind == "3150FC":
            d = r.randrange(0, 201)
            frame = f" I --- {CTL} --:------ {CTL} 3150 002 FC{d:02X}"
            ups = [(("system", "heat_demand"), d / 200, life("3150", " I", False), "I")]
        elif kind == "0008FC":
            d = r.randrange(0, 201)
            frame = f" I --- {CTL} --:------ {CTL} 0008 002 FC{d:02X}"
            ups = [(("system", "relay_demand_fc"), d / 200, life("0008", " I", False), "I")]
        elif kind == "trv30C9":
            v = self.temp()
            frame = f" I --- {self.trvs[z]} --:------ {self.trvs[z]} 30C9 003 00{hx_temp(v)}"
            ups = [((f"trv {z}", "temperature"), v, life("30C9", " I", False), "I")]
        elif kind == "trv3150":
            d = r.randrange(0, 201)
            frame = f" I --- {self.trvs[z]} --:------ {CTL} 3150 002 {z}{d:02X}"
            ups = [((f"trv {z}", "heat_demand"), d / 200, life("3150", " I", False), "I")]
        elif kind == "ufc3150FC":  # an underfloor-heating controller's own demands
            d = r.randrange(0, 201)
            frame = f" I --- {self.ufc} --:------ {self.ufc} 3150 002 FC{d:02X}"
            ups = [(("ufc", "heat_demand"), d / 200, life("3150", " I", False), "I")]
        elif kind == "ufc0008FC":
            d = r.randrange(0, 201)
            frame = f" I --- {self.ufc} --:------ {self.ufc} 0008 002 FC{d:02X}"
            ups = [(("ufc", "relay_demand"), d / 200, life("0008", " I", False), "I")]
        elif kind == "ufc3150a":
            ds = [r.randrange(0, 201) for _ in range(r.choice((2, 3, 5)))]
            frame = f" I --- {self.ufc} --:------ {self.ufc} 3150 {2 * len(ds):03d} " + "".join(f"{i:02X}{d:02X}" for i, d in enumerate(ds))
            ups = [(("ufc", "heat_demands"), [d / 200 for d in ds], life("3150", " I", True), "array")]
        elif kind == "fan31D9":  # a ventilator's status
            d = r.randrange(0, 201)
            frame = f" I --- {self.fan} --:------ {self.fan} 31D9 003 0000{d:02X}"
            ups = [(("fan", "31D9.fan_mode"), f"{d:02X}", life("31D9", " I", False), "I")]
        elif kind == "fan31DA":
            mins = r.randrange(0, 200)
            frame = f" I --- {self.fan} --:------ {self.fan} 31DA 029 00EF007FFFEFEF7FFF7FFF7FFF7FFFF000EF0DB000{mins:04X}EFEF7FFF7FFF"
            ups = [(("fan", "31DA.remaining_mins"), mins, life("31DA", " I", False), "I")]
        elif kind == "dhw1260":
            v = self.temp()
            frame = f" I --- {self.dhw_sensor} --:------ {self.dhw_sensor} 1260 003 00{hx_temp(v)}"
            ups = [(("dhw sensor", "temperature"), v, life("1260", " I", False), "I")]
        else:  # bdr3EF0
            v = r.random() < 0.5
            frame = f" I --- {self.bdr} --:------ {self.bdr} 3EF0 003 00{'C8' if v else '00'}FF"
            ups = [(("relay", "active"), v, life("3EF0", " I", False), "I")]
        return frame, ups


def read_attr(gwy, world: World, key: tuple[str, str]) -> Any:
    """The library's report for a model key, normalised to the model's value form."""
    ent, attr = key
    tcs = gwy.tcs
    if ent.startswith("zone "):
        z = tcs.zone_by_idx[ent[5:]]
        if attr == "config":
            c = z.config
            return None if c is None else (c["min_temp"], c["max_temp"])
        if attr == "mode":
            m = z.mode
            return None if m is None else m["mode"]
        return getattr(z, attr)
    if ent == "dhw":
        if attr == "mode":
            m = tcs.dhw.mode
            return None if m is None else (m["mode"], m["active"])
        return tcs.dhw.setpoint
    if ent == "system":
        if attr == "system_mode":
            m = tcs.system_mode
            return None if m is None else m["system_mode"]
        if attr == "relay_demand_fc":
            rd = tcs.relay_demands
            return None if not rd else rd.get("FC")
        return tcs.heat_demand
    if ent.startswith("trv "):
        return getattr(gwy.device_by_id[world.trvs[ent[4:]]], attr)
    if ent == "ufc":
        dev = gwy.device_by_id[world.ufc]
        if attr == "heat_demands":
            hd = dev.heat_demands
            return None if hd is None else [e["heat_demand"] for e in (hd if isinstance(hd, list) else [hd])]
        return getattr(dev, attr)
    if ent == "fan":
        return gwy.device_by_id[world.fan].status.get(attr.split(".")[1])
    if ent == "dhw sensor":
        return gwy.device_by_id[world.dhw_sensor].temperature
    return gwy.device_by_id[world.bdr].active


async def part_bc(loop: vloop.VirtualLoop, ctx, trial: int) -> None:
    import random

    rng = random.Random(f"C14/{ctx.seed}/{trial}")  # an episode is a function of (seed, trial) alone
    ep = {"seed": ctx.seed, "trial": trial}
    world = World(rng, rng.choice((1, 2, 4, 12)))  # noqa
    world.complete_arrays = trial % 3 == 0 and len(world.zones) <= 8
    air = airmod.Air(loop)
    gwy = await harness.start_port_gateway(loop, air, GWY_ID, config={"disable_discovery": True}, **world.schema())
    port = gwy._vrf_port
    trail: list[str] = []

    def safe_read(key):
        try:
            return read_attr(gwy, world, key)
        except Exception as err:  # noqa: BLE001
            ctx.violate(f"C14|read-raises|{key[1]}|{type(err).__name__}|{innermost_lib_frame(err)}", "reading an attribute raised", {"attr": key, "error": repr(err)[:160], "last_packets": trail[-5:]})
            return "<raised>"

    port.stage_line(f"045  I --- {CTL} --:------ {CTL} 1F09 003 FF073F")
    await asyncio.sleep(0.05)
    n = rng.randint(20, 60 if ctx.quick else 200)
    for _ in range(n):
        frame, ups = world.step()
        trail.append(frame)
        port.stage_line("045 " + frame)
        await asyncio.sleep(rng.choice((0.03, 0.2, 3.5, 20.0)))
        await vloop.drain(loop, 8)
        ctx.count("B.packets")
        for key, val, life, form in ups:
            world.model[key] = (val, loop.time(), life, form)
        # (B) every attribute the model knows, compared now (nothing has had time to expire: the
        #     whole feed takes less than the shortest lifetime used, checked below)
        for key, (val, vt, life, form) in world.model.items():
            if life is not None and loop.time() - vt >= life:
                continue  # may legitimately have aged: judged in (C)
            got = safe_read(key)
            ctx.count("B.compared")
            ctx.seen(f"B|{key[1]}|{form}|{'ok' if got == val else 'differs'}")
            if got != val and got != "<raised>":
                ctx.violate(
                    f"C14|freshness|{key[1]}|{form}|{'unknown' if got is None else 'stale-or-wrong'}",
                    "an attribute does not report the value of the most recently received message for it",
                    {"attr": list(key), "expected": val, "reported": got, "age_s": round(loop.time() - vt, 3), "last_packets": trail[-8:], "episode": ep},
                )
    # (B') the application restarts: the state is saved, a fresh gateway is started from it - every attribute whose
    #      newest message is still live must read there as it read here (a restore replays the saved packets)
    if world.complete_arrays:
        try:
            schema, pkts = gwy.get_state()
        except Exception as err:  # noqa: BLE001  (C13's subject)
            schema, pkts = None, None
            ctx.info.setdefault("get_state_raised", []).append(f"{type(err).__name__}@{innermost_lib_frame(err)}")
        if pkts:
            air2 = airmod.Air(loop)
            gwy2 = await harness.start_port_gateway(loop, air2, GWY_ID, config={"disable_discovery": True}, start_kwargs={"cached_packets": pkts}, **world.schema())
            await asyncio.sleep(0.1)
            await vloop.drain(loop, 8)
            ctx.count("B.restarts")
            for key, (val, vt, life, form) in world.model.items():
                if life is not None and loop.time() - vt >= life - 1.0:
                    continue
                try:
                    got = read_attr(gwy2, world, key)
                except Exception as err:  # noqa: BLE001
                    got = f"<raised {type(err).__name__}>"
                ctx.count("B.compared_after_restart")
                if got != val:
                    ctx.violate(
                        f"C14|restart|{key[1]}|{form}|{'unknown' if got is None else 'stale-or-wrong'}",
                        "after a restart from the saved state an attribute no longer reports the value of the most recently received message for it",
                        {"attr": list(key), "expected": val, "reported": got, "age_s": round(loop.time() - vt, 3), "last_packets": trail[-8:], "episode": ep},
                    )
            await harness.stop_gateway(gwy2)
            air2.close()
    # (C) ageing: for a few attributes, move the clock to just before L and just after 2L+3
    keys = sorted(world.model, key=lambda k: world.model[k][1] + (world.model[k][2] or 0))
    for key in keys:
        val, vt, life, form = world.model[key]
        age = loop.time() - vt
        if life is None or age >= life - EPS:
            continue
        await asyncio.sleep(life - EPS - age)  # now the newest message of this attribute is L - eps old
        got = safe_read(key)
        ctx.count("C.live_checks")
        ctx.seen(f"C|{key[1]}|{form}|live|{'ok' if got == val else 'differs'}")
        if got != val and got != "<raised>":
            ctx.violate(
                f"C14|ageing|dropped-before-lifetime|{key[1]}|{form}",
                "an attribute stopped reporting its newest message before that message's lifetime had passed",
                {"attr": list(key), "expected": val, "reported": got, "age_s": round(loop.time() - vt, 3), "lifetime_s": life, "episode": ep},
            )
    t_end = max(vt + 2 * life + 3 + EPS for (val, vt, life, form) in world.model.values() if life is not None)
    if t_end > loop.time():
        await asyncio.sleep(t_end - loop.time())
    for key in keys:
        val, vt, life, form = world.model[key]
        first = safe_read(key)
        await vloop.drain(loop, 6)
        second = safe_read(key)
        for _ in range(3):  # an attribute fed by two codes (setpoint: 2309, 2349) sheds one expired message per read
            if second is None or second == "<raised>":
                break
            await vloop.drain(loop, 6)
            second = safe_read(key)
        ctx.count("C.aged_checks")
        ctx.seen(f"C|{key[1]}|{form}|aged|{'unknown' if second is None else 'lingers'}")
        if first is not None and first != "<raised>":
            ctx.count("C.first_read_after_expiry_still_reports")
            ctx.violate(
                "C14|ageing|first-read-after-expiry-reports-stale-value",
                "the first read of an attribute after its newest message expired still reports the expired value",
                {"attr": list(key), "reported_first": first, "reported_second": second, "age_s": round(loop.time() - vt, 3), "lifetime_s": life, "episode": ep},
            )
        if second is not None and second != "<raised>":
            ctx.violate(
                f"C14|ageing|expired-value-lingers|{key[1]}|{form}",
                "an attribute keeps reporting a value whose newest message expired (more than twice its lifetime ago)",
                {"attr": list(key), "reported": second, "age_s": round(loop.time() - vt, 3), "lifetime_s": life, "episode": ep, "last_packets_for_attr": [f for f in trail if f" {key[0][5:]}" in f or key[0][5:] in f.split(" ")[-1][:2]][-6:]},
            )
    ctx.ev()
    if trial < 1:
        ctx.sample({"part": "B/C", "zones": world.zones, "packets": trail[:6], "model": {f"{k[0]}.{k[1]}": v[0] for k, v in list(world.model.items())[:8]}})
    await harness.stop_gateway(gwy)
    air.close()


async def part_d(loop: vloop.VirtualLoop, ctx, trial: int) -> None:
    """Staggered ages: packets hours apart, so that at any moment some attributes are live, some in the grace
    band and some long expired.  After every packet *every* attribute is read (the expired ones too - reading
    one is what makes the library purge it), the loop runs, and then: a live attribute (newest message younger
    than its lifetime) must report that message's value whatever was purged around it; an attribute all of
    whose messages are older than 2L+3 must report nothing."""
    import random

    rng = random.Random(f"C14d/{ctx.seed}/{trial}")
    ep = {"seed": ctx.seed, "trial": trial, "part": "D"}
    world = World(rng, rng.choice((2, 3, 4, 12)))
    air = airmod.Air(loop)
    gwy = await harness.start_port_gateway(loop, air, GWY_ID, config={"disable_discovery": True}, **world.schema())
    port = gwy._vrf_port
    trail: list[str] = []
    writes: dict[tuple[str, str], list[tuple[float, float | None]]] = {}

    def safe_read(key):
        try:
            return read_attr(gwy, world, key)
        except Exception as err:  # noqa: BLE001
            ctx.violate(f"C14|read-raises|{key[1]}|{type(err).__name__}|{innermost_lib_frame(err)}", "reading an attribute raised", {"attr": key, "error": repr(err)[:160], "last_packets": trail[-5:], "episode": ep})
            return "<raised>"

    gaps = rng.choice(((0.2, 20.0, 600.0, 1900.0), (20.0, 1900.0, 3700.0, 7300.0), (600.0, 3700.0, 14500.0, 30000.0), (0.2, 3700.0, 90000.0)))
    for _ in range(rng.randint(15, 40 if ctx.quick else 90)):
        frame, ups = world.step()
        gap = rng.choice(gaps)
        trail.append(f"+{gap:g}s " + frame)
        port.stage_line("045 " + frame)
        await asyncio.sleep(0.05)
        await vloop.drain(loop, 8)
        for key, val, life, form in ups:
            world.model[key] = (val, loop.time() - 0.05, life, form)
            writes.setdefault(key, []).append((loop.time() - 0.05, life))
        await asyncio.sleep(gap)
        ctx.count("D.packets")
        order = list(world.model)
        rng.shuffle(order)
        for key in order:  # pass 1: touch everything (schedules the purges)
            safe_read(key)
        await vloop.drain(loop, 8)
        now = loop.time()
        for key in order:
            val, vt, life, form = world.model[key]
            if life is None:
                continue
            age = now - vt
            if age < life - EPS:
                got = safe_read(key)
                ctx.count("D.live_checks")
                ctx.seen(f"D|{key[1]}|{form}|live|{'ok' if got == val else 'differs'}")
                if got != val and got != "<raised>":
                    ctx.violate(
                        f"C14|staggered|live-value-lost|{key[1]}|{form}|{'unknown' if got is None else 'stale-or-wrong'}",
                        "with messages of different ages in the system, an attribute whose newest message is within its lifetime does not report it (after other, expired, attributes were read)",
                        {"attr": list(key), "expected": val, "reported": got, "age_s": round(age, 3), "lifetime_s": life, "last_packets": trail[-8:], "episode": ep},
                    )
            elif all(lf is not None and now - t > 2 * lf + 3 + EPS for t, lf in writes[key]):
                got = safe_read(key)
                for _ in range(3):
                    if got is None or got == "<raised>":
                        break
                    await vloop.drain(loop, 6)
                    got = safe_read(key)
                ctx.count("D.aged_checks")
                ctx.seen(f"D|{key[1]}|{form}|aged|{'unknown' if got is None else 'lingers'}")
                if got is not None and got != "<raised>":
                    ctx.violate(
                        f"C14|ageing|expired-value-lingers|{key[1]}|{form}",
                        "an attribute keeps reporting a value whose newest message expired (more than twice its lifetime ago)",
                        {"attr": list(key), "reported": got, "age_s": round(age, 3), "lifetime_s": life, "last_packets": trail[-8:], "episode": ep},
                    )
            else:
                ctx.count("D.grace_band_unjudged")
    ctx.ev()
    await harness.stop_gateway(gwy)
    air.close()


async def part_e(loop: vloop.VirtualLoop, ctx, trial: int, tzname: str) -> None:
    """The MQTT gateway (ramses_esp): frames arrive in '{ts, msg}' envelopes whose ts is timezone-aware (UTC).  On a
    host that is not on UTC the value must still be fresh when it has just arrived, and age out when its time has come."""
    import datetime as _dtm
    import json as _json
    import random

    from ramses_rf import Gateway

    from .boundary import FakeMqttClient, mqtt_patched

    rng = random.Random(f"C14e/{ctx.seed}/{trial}")
    ep = {"seed": ctx.seed, "trial": trial, "part": "E", "TZ": tzname}
    world = World(rng, 2)
    topic = f"RAMSES/GATEWAY/{GWY_ID}"
    VDT = vloop.make_virtual_datetime(vloop.current)
    with mqtt_patched():
        n0 = len(FakeMqttClient.instances)
        gwy = Gateway("mqtt://u:p@127.0.0.1:1883", config={"disable_discovery": True}, **world.schema())

        def online() -> None:
            if len(FakeMqttClient.instances) > n0:
                FakeMqttClient.instances[-1].deliver(topic, b"online")
            else:
                loop.call_later(0.01, online)

        loop.call_later(0.01, online)
        await asyncio.wait_for(gwy.start(), timeout=30)
        client = FakeMqttClient.instances[-1]

        def rx(frame: str) -> None:
            now_local = VDT.now()  # the host's (virtual) wall clock, naive local time like everything in the library
            ts = now_local.replace(tzinfo=None).astimezone().astimezone(_dtm.timezone.utc).isoformat(timespec="microseconds")
            client.deliver(topic + "/rx", _json.dumps({"ts": ts, "msg": f"045 {frame}"}).encode())

        rx(f" I --- {CTL} --:------ {CTL} 1F09 003 FF073F")
        await asyncio.sleep(0.05)
        for _ in range(rng.randint(10, 25)):
            frame, ups = world.step()
            rx(frame)
            await asyncio.sleep(rng.choice((0.05, 2.0, 30.0)))
            await vloop.drain(loop, 6)
            for key, val, life, form in ups:
                world.model[key] = (val, loop.time(), life, form)
            ctx.count("E.packets")
            for key, (val, vt, life, form) in world.model.items():
                if life is not None and loop.time() - vt >= life - 1.0:
                    continue
                try:
                    got = read_attr(gwy, world, key)
                except Exception as err:  # noqa: BLE001
                    got = f"<raised {type(err).__name__}>"
                ctx.count("E.compared")
                if got != val:
                    ctx.violate(
                        f"C14|mqtt-timestamps|{'unknown' if got is None else 'stale-or-wrong'}|{key[1]}",
                        "on the MQTT transport (timezone-aware 'ts', host not on UTC) an attribute does not report the message that has just arrived",
                        {"attr": list(key), "expected": val, "reported": got, "age_s": round(loop.time() - vt, 3), "lifetime_s": life, "episode": ep},
                    )
        # ageing out: past twice the longest lifetime in play
        t_end = max(vt + 2 * life + 3 + EPS for (val, vt, life, form) in world.model.values() if life is not None)
        await asyncio.sleep(max(0.0, t_end - loop.time()))
        for key, (val, vt, life, form) in world.model.items():
            if life is None:
                continue
            got = None
            for _ in range(4):
                try:
                    got = read_attr(gwy, world, key)
                except Exception:  # noqa: BLE001
                    got = None
                if got is None:
                    break
                await vloop.drain(loop, 6)
            ctx.count("E.aged_checks")
            if got is not None:
                ctx.violate(
                    f"C14|mqtt-timestamps|expired-value-lingers|{key[1]}",
                    "on the MQTT transport (timezone-aware 'ts', host not on UTC) a value is still reported after twice its lifetime",
                    {"attr": list(key), "reported": got, "age_s": round(loop.time() - vt, 3), "lifetime_s": life, "episode": ep},
                )
        ctx.ev()
        try:
            await asyncio.wait_for(gwy.stop(), timeout=5)
        except Exception:  # noqa: BLE001
            pass


async def part_f(loop: vloop.VirtualLoop, ctx, trial: int) -> None:
    """The wall clock is not monotone: daylight-saving time ends, NTP corrects a fast clock, logs are joined.
    'The most recently received message' is the one that arrived last, whatever its stamp says: a packet log whose
    stamps step back (by an hour, by half a minute) part-way is replayed, and every attribute written after the
    step must report what its last-arrived message carried.  All stamps lie within minutes: nothing is expired."""
    import random

    rng = random.Random(f"C14f/{ctx.seed}/{trial}")
    ep = {"seed": ctx.seed, "trial": trial, "part": "F"}
    world = World(rng, rng.choice((2, 3, 4)))
    world.complete_arrays = True  # type: ignore[attr-defined]
    step_back = rng.choice((3600.0, 3600.0, 30.0, 300.0))
    t = _dt.datetime(2024, 10, 27, 2, 40, 0)
    lines: list[tuple[str, str]] = []
    model: dict[tuple[str, str], tuple[Any, str, bool]] = {}
    n_pre, n_post = rng.randint(8, 25), rng.randint(6, 20)
    for i in range(n_pre + n_post):
        if i == n_pre:
            t -= _dt.timedelta(seconds=step_back)
        t += _dt.timedelta(seconds=rng.choice((0.2, 1.0, 4.0, 9.0)))
        frame, ups = world.step()
        lines.append((t.isoformat(timespec="microseconds"), "045 " + frame))
        for key, val, life, form in ups:
            model[key] = (val, form, i >= n_pre)
    ep["step_back_s"], ep["lines"] = step_back, lines
    gwy = harness.file_gateway(lines, config={"disable_discovery": True}, **world.schema())
    await asyncio.wait_for(gwy.start(), timeout=60)
    await vloop.drain(loop, 12)
    for key, (val, form, after_step) in model.items():
        if not after_step:
            continue
        try:
            got = read_attr(gwy, world, key)
        except Exception as err:  # noqa: BLE001
            ctx.violate(f"C14|read-raises|{key[1]}|{type(err).__name__}|{innermost_lib_frame(err)}", "reading an attribute raised", {"attr": key, "error": repr(err)[:160], "episode": ep})
            continue
        ctx.count("F.checks")
        ctx.seen(f"F|{key[1]}|{form}|{int(step_back)}|{'ok' if got == val else 'differs'}")
        if got != val and key[1] == "setpoint" and key[0].startswith("zone "):
            # a zone's setpoint is fed by two codes (2309, 2349) and the library takes the one with the later *stamp*
            ctx.violate(
                "C14|clock-step|two-code-attribute-ordered-by-stamp|setpoint",
                "after the wall clock stepped back, a zone's setpoint (fed by 2309 and by 2349) reports the message with the later stamp, not the one received last",
                {"attr": list(key), "expected": val, "reported": got, "episode": ep},
            )
        elif got != val:
            ctx.violate(
                f"C14|clock-step|last-arrived-not-reported|{key[1]}|{form}",
                "after the wall clock stepped back, an attribute does not report the value of its most recently received message",
                {"attr": list(key), "expected": val, "reported": got, "episode": ep},
            )
    ctx.ev()
    await gwy.stop()


def run_part_e(ctx) -> None:
    import os
    import time as _time

    old = os.environ.get("TZ")
    try:
        for k in range(2 if ctx.quick else 30):
            trial = ctx.shard + k * ctx.nshards
            tzname = ("NZST-12", "EST5", "UTC0", "IST-5:30")[trial % 4]  # POSIX TZ strings: fixed offsets, no DST
            os.environ["TZ"] = tzname
            _time.tzset()
            harness.reset_transport_globals()

            async def goe(loop, trial=trial, tzname=tzname):
                with clocks_patched(transport_dt=True), patch("ramses_tx.transport.MIN_INTER_WRITE_GAP", 3600.0):
                    await part_e(loop, ctx, trial, tzname)

            try:
                vloop.run(goe)
            except vloop.Starved as err:
                ctx.inconclusive_because(f"MQTT timestamp scenario starved the virtual clock: {err}")
    finally:
        if old is None:
            os.environ.pop("TZ", None)
        else:
            os.environ["TZ"] = old
        _time.tzset()


def run(ctx) -> None:
    part_a(ctx)
    run_part_e(ctx)
    for k in range(6 if ctx.quick else 120):
        trial = ctx.shard + k * ctx.nshards

        async def gof(loop, trial=trial):
            await part_f(loop, ctx, trial)

        try:
            vloop.run(gof)
        except vloop.Starved as err:
            ctx.inconclusive_because(f"scenario starved the virtual clock: {err}")
    for k in range(15 if ctx.quick else 300):
        trial = ctx.shard + k * ctx.nshards
        harness.reset_transport_globals()

        async def god(loop, trial=trial):
            with clocks_patched(), patch("ramses_tx.transport.MIN_INTER_WRITE_GAP", 3600.0):
                await part_d(loop, ctx, trial)

        try:
            vloop.run(god)
        except vloop.Starved as err:
            ctx.inconclusive_because(f"scenario starved the virtual clock: {err}")
    for k in range(40 if ctx.quick else 600):
        trial = ctx.shard + k * ctx.nshards
        harness.reset_transport_globals()

        async def go(loop, trial=trial):
            # this gateway never sends: let the transport's write-spacing task tick once an hour instead
            # of every 50 ms, so that days of virtual time cost milliseconds of wall time
            with clocks_patched(), patch("ramses_tx.transport.MIN_INTER_WRITE_GAP", 3600.0):
                await part_bc(loop, ctx, trial)

        try:
            vloop.run(go)
        except vloop.Starved as err:
            ctx.inconclusive_because(f"scenario starved the virtual clock: {err}")


def replay(data: dict[str, Any]) -> int:
    from .common import Ctx

    bad, seen = 0, set()
    for w in data.get("witnesses", []):
        ep = w.get("episode") or {}
        if "trial" not in ep or (ep["seed"], ep["trial"]) in seen:
            continue
        seen.add((ep["seed"], ep["trial"]))
        ctx = Ctx(PID, "thorough", ep["seed"], 0, 1)
        harness.reset_transport_globals()

        async def go(loop, ep=ep, ctx=ctx):
            with clocks_patched(transport_dt=ep.get("part") == "E"), patch("ramses_tx.transport.MIN_INTER_WRITE_GAP", 3600.0):
                if ep.get("part") == "E":
                    await part_e(loop, ctx, ep["trial"], ep["TZ"])
                else:
                    await (part_d if ep.get("part") == "D" else part_bc)(loop, ctx, ep["trial"])

        if ep.get("part") == "E":
            import os
            import time as _time

            os.environ["TZ"] = ep["TZ"]
            _time.tzset()
        vloop.run(go)
        for k, v in ctx.violations.items():
            if k in load_known_keys():
                continue
            print("REPRODUCED", k, "-", v["what"])
            print("   ", str(v["witnesses"][0])[:1500])
            bad += 1
        if not bad:
            print(f"episode seed={ep['seed']} trial={ep['trial']}: not reproduced")
    return bad


def load_known_keys() -> set[str]:
    from .common import load_known

    return set(load_known(PID)[0])
