"""C05 — decoded payloads are JSON-able, deterministic, element-wise and index-consistent.

Payload-shape monitor run on the real decoder (Packet + Message):
 (1) json.dumps(payload, allow_nan=False) succeeds;
 (2) the same line decoded in three different neighbourhoods (order A, seeded shuffle B,
     reversed) — fresh Packet/Message objects each time, warm lru caches — gives the same payload;
 (3) any zone/domain/dhw/ufh/hvac/log/msg index reported equals the bytes carried in the frame
     (rule written once, independently: first byte, except 0418 [4:6], 3220 [4:6], 0404 'HW',
     000C role mapping / UFC);
 (4) an array of n per-zone elements decodes to exactly [decode(element_i alone)];
 (5) ratios within 0..1 and temperatures within the wire range.
"""

from __future__ import annotations

import json
import re
from typing import Any

from . import gen
from .mon import innermost_lib_frame

PID = "C05"
LEVEL = "exploration"
SHARDS = {"quick": 16, "thorough": 16}
WALL_LIMIT = {"quick": 600, "thorough": 3600}
RULE = (
    "lines = corpus frames + regex-sampled payloads of every known verb/code under the legal "
    "address shapes and sender types (incl. UFC senders, 12:/22:/23: controllers, 1-element arrays); "
    "arrays of n=1..8 elements built from sampled element bytes for 0009/000A/2309/30C9/2249/22C9/3150. "
    "Only lines the decoder accepts are in the quantifier. Distinct = (code, verb, address shape, sender "
    "type, payload length class, payload kind dict/list) for lines and (code, n, sender type) for arrays."
)
ASSUMPTIONS = [
    "a lone element sent by a UFH controller (22C9/3150, src==dst) is by design a one-element list: normalised to its member",
    "values derived from the packet's own timestamp (e.g. _next_setpoint) are part of the input, so each case keeps one timestamp",
    "ratio keys = the keys fed from hex_to_percent/parse_valve_demand (committed list below); temperature keys likewise",
]
REQUIRED = {"gateway.pairs": 50, "gateway.messages_held": 100, "sibling.groups": 200, "decoded": 1000, "order.compared": 1000, "index.checked": 300, "array.compared": 100, "stamp.compared": 100, "range.checked": 200}

DTM = "2024-03-01T12:00:00.000000"
IDX_KEYS = ("zone_idx", "domain_id", "dhw_idx", "ufh_idx", "ufx_idx", "hvac_id", "other_idx")
RATIO_KEYS = {  # every key the parsers feed from hex_to_percent / parse_valve_demand / fan-speed helpers
    "relay_demand", "heat_demand", "modulation_level", "max_rel_modulation", "percentage",
    "percent_remaining", "percent_2", "percent_4", "percent_6", "battery_level", "vent_demand", "demand",
    "exhaust_fan_speed", "supply_fan_speed", "bypass_position", "post_heat", "pre_heat",
    "indoor_humidity", "outdoor_humidity", "air_quality",
}
TEMP_KEYS = {  # every key the parsers feed from hex_to_temp as a temperature
    "temperature", "temperatures", "setpoint", "setpoint_bounds", "min_temp", "max_temp", "setpoint_now",
    "setpoint_next", "differential", "exhaust_temp", "supply_temp", "indoor_temp", "outdoor_temp",
    "dewpoint_temp",
}
# element length, sender classes: the classes the library's own table names, and other legal senders of such arrays
# (a 23: programmer is a controller too; 21: is the Itho UFH controller)
ARRAY_CODES = {
    "0009": (3, (1, 12, 22, 23)),
    "000A": (6, (1, 12, 22, 23)),
    "2309": (3, (1, 12, 22, 23)),
    "30C9": (3, (1, 12, 22, 23)),
    "2249": (7, (23,)),
    "22C9": (6, (2, 21)),
    "3150": (2, (2, 21)),
}


def decode(dtm: str, line: str):  # type: ignore[no-untyped-def]
    from ramses_tx.message import Message
    from ramses_tx.packet import Packet

    return Message(Packet.from_file(dtm, line))


def try_decode(ctx, dtm: str, line: str):  # type: ignore[no-untyped-def]
    from ramses_tx import exceptions as exc

    try:
        return decode(dtm, line)
    except (exc.PacketInvalid, ValueError):
        ctx.count("rejected")
        return None
    except Exception as err:  # noqa: BLE001  (C01's business; recorded here as information)
        ctx.count("foreign_exception_seen")
        ctx.info.setdefault("foreign_exceptions", []).append(f"{type(err).__name__}@{innermost_lib_frame(err)}")
        return None


def canon(payload: Any) -> str:
    return json.dumps(payload, sort_keys=True, default=lambda o: f"<<{type(o).__name__}>>")


def walk(obj: Any, path: str = ""):  # type: ignore[no-untyped-def]
    if isinstance(obj, dict):
        for k, v in obj.items():
            yield from walk(v, f"{path}.{k}" if path else str(k))
    elif isinstance(obj, (list, tuple)):
        for i, v in enumerate(obj):
            yield from walk(v, f"{path}[]")
    else:
        yield path, obj


def expected_index(code: str, verb: str, raw: str, src_type: str, key: str, element: str | None) -> Any:
    """The index the frame carries for `key` — written from the frame layout, not from the parser."""
    first = (element or raw)[:2]
    if code == "0418":
        return raw[4:6]
    if code == "3220":
        return int(raw[4:6], 16)
    if code == "0404" and key == "zone_idx":
        return "HW" if raw[2:4] == "23" else first
    if code == "000C":
        if src_type == "02":
            if key == "ufh_idx":
                return first
            if key == "zone_idx":
                return None if raw[4:6] == "7F" else raw[4:6]
        if key == "domain_id":
            role = raw[2:4]
            if role == "0F":
                return "FC"
            if role in ("0D", "0E"):
                return "FA" if raw[:2] == "00" else "F9"
        return first
    return first


def check_line(ctx, dtm: str, line: str, msg) -> None:  # type: ignore[no-untyped-def]
    code, verb, raw = msg.code, msg.verb, msg._pkt.payload
    payload = msg.payload
    witness = {"line": line, "payload": payload}
    # (1) JSON-able
    try:
        json.dumps(payload, allow_nan=False)
    except (TypeError, ValueError) as err:
        ctx.violate(
            f"C05|json|{code}|{type(err).__name__}",
            "a decoded payload is not plain JSON-serialisable data",
            {"line": line, "error": str(err)[:120], "payload": repr(payload)[:300]},
        )
    # (3) index consistency
    elements: list[tuple[dict, str | None]] = []
    if isinstance(payload, dict):
        elements = [(payload, None)]
    elif isinstance(payload, list) and code in ARRAY_CODES and all(isinstance(e, dict) for e in payload):
        n = ARRAY_CODES[code][0] * 2
        if len(payload) * n == len(raw):
            elements = [(e, raw[i * n : (i + 1) * n]) for i, e in enumerate(payload)]
    for el, seg in elements:
        for key in IDX_KEYS + (("log_idx", "_log_idx") if code == "0418" else ()) + (("msg_id",) if code == "3220" else ()):
            if key not in el:
                continue
            want = expected_index(code, verb, raw, msg.src.type, key, seg)
            ctx.count("index.checked")
            if el[key] != want:
                ctx.violate(
                    f"C05|index|{code}|{key}",
                    "an index reported in the payload is not the one carried in the frame",
                    {**witness, "key": key, "reported": el[key], "carried": want},
                )
    # (5) ranges
    for path, v in walk(payload):
        leaf = path.rsplit(".", 1)[-1].replace("[]", "")
        if isinstance(v, bool) or not isinstance(v, (int, float)):
            continue
        if leaf in RATIO_KEYS:
            ctx.count("range.checked")
            if not 0.0 <= v <= 1.0:
                ctx.violate(f"C05|range|ratio|{code}|{leaf}", "a ratio outside 0..1 was reported", {**witness, "key": path, "value": v})
        elif leaf in TEMP_KEYS:
            ctx.count("range.checked")
            if not -273.15 <= v <= 327.67:
                ctx.violate(f"C05|range|temperature|{code}|{leaf}", "a temperature outside the wire range was reported", {**witness, "key": path, "value": v})


def build_cases(ctx) -> list[tuple[str, str]]:
    from ramses_tx.ramses import CODES_SCHEMA

    rng = ctx.rng
    cases: list[tuple[str, str]] = []
    frames = gen.corpus_frames()
    cases += [x for i, x in enumerate(frames) if i % ctx.nshards == ctx.shard]
    if ctx.shard == 0:  # witnesses of recorded findings: always re-observed, so they are reported every run
        from .common import load_known

        cases += [(DTM, f["witness"]) for f in load_known(PID)[0].values() if f.get("witness")]
    sampler = gen.RegexSampler(rng)
    pairs = [(c, v) for c, d in CODES_SCHEMA.items() for v in gen.VERBS if v in d]
    pairs = [p for i, p in enumerate(pairs) if i % ctx.nshards == ctx.shard]
    reps = 10 if ctx.quick else 2500
    for code, verb in pairs:
        for r in range(reps):
            payload = gen.sample_payload(rng, code, verb, sampler)
            if payload is None:
                continue
            typ = rng.choice((1, 1, 2, 3, 4, 7, 10, 12, 13, 18, 22, 23, 30, 32, 34, 37))
            addrs = gen.addr_set(rng, r % 4, src=gen.dev_id(rng, typ), dst=gen.dev_id(rng, rng.choice((1, 18, 2, 13, 10, 30))))
            cases.append((DTM, f"045 {verb} {gen.seqn(rng)} {addrs} {code} {len(payload) // 2:03d} {payload}"))
    return cases


def part_lines(ctx) -> None:
    rng = ctx.rng
    cases = build_cases(ctx)
    # order A
    first: dict[int, str] = {}
    for i, (dtm, line) in enumerate(cases):
        ctx.ev()
        msg = try_decode(ctx, dtm, line)
        if msg is None:
            continue
        ctx.count("decoded")
        first[i] = canon(msg.payload)
        p = line.split()
        shape = "".join("-" if x.startswith("--") else "d" for x in p[-6:-3])
        ctx.seen(f"{msg.code}|{msg.verb}|{shape}|{msg.src.type}|{min(msg._pkt._len // 6, 8)}|{type(msg.payload).__name__}")
        check_line(ctx, dtm, line, msg)
        if len(ctx.samples) < 4 and i % 97 == 0:
            ctx.sample({"line": line, "payload": msg.payload})
        # the payload now belongs to its holder (an application): whatever it does with it must not show up
        # in a later decode - anything a parser kept a reference to is poisoned here, and orders B / C tell
        poison(msg.payload)
    # orders B (shuffled) and C (reversed): fresh objects, warm caches, other neighbours
    order_b = list(first)
    rng.shuffle(order_b)
    for order, name in ((order_b, "shuffled"), (list(reversed(list(first))), "reversed")):
        for i in order:
            dtm, line = cases[i]
            msg = try_decode(ctx, dtm, line)
            ctx.count("order.compared")
            got = canon(msg.payload) if msg is not None else "<<rejected>>"
            if got != first[i]:
                ctx.violate(
                    f"C05|determinism|{line.split()[-3]}|{name}",
                    "the same packet decoded to a different payload when decoded in another order",
                    {"line": line, "first": first[i][:300], "later": got[:300], "order": name},
                )


def poison(obj: Any, depth: int = 0) -> None:
    """Modify a decoded payload in place, as a careless holder might."""
    if depth > 6:
        return
    if isinstance(obj, dict):
        for k in list(obj):
            if isinstance(obj[k], (dict, list)):
                poison(obj[k], depth + 1)
            else:
                obj[k] = "<<poisoned>>"
        obj["<<poisoned>>"] = True
    elif isinstance(obj, list):
        for x in obj:
            poison(x, depth + 1)
        obj.append("<<poisoned>>")


def part_siblings(ctx) -> None:
    """Same payload under other sequence numbers / device ids, decoded around each other.

    Anything a parser shares between decodes (a cached or module-level object that is later
    updated in place) shows up as: L decoded first != L decoded again after its siblings.
    """
    rng = ctx.rng
    frames = [x for i, x in enumerate(gen.corpus_frames()) if i % ctx.nshards == ctx.shard]
    cases = build_cases(ctx)
    pool = cases if ctx.quick else cases + frames
    step = 3 if ctx.quick else 1
    for k, (dtm, line) in enumerate(pool):
        if k % step:
            continue
        body = line[4:]
        p = body.split(" ")
        if len(p) < 8:
            continue
        verb = body[:2]
        a0, a1, a2 = p[-6], p[-5], p[-4]

        def other(a: str) -> str:
            return a if a[:2] == "--" or a == "63:262142" else f"{a[:3]}{(int(a[3:]) + 7) % 262143:06d}"

        b0 = other(a0)
        b1 = b0 if a1 == a0 else other(a1)
        b2 = b0 if a2 == a0 else (b1 if a2 == a1 else other(a2))
        tail = " ".join(p[-3:])
        sibs = [
            f"045 {verb} --- {a0} {a1} {a2} {tail}",
            f"045 {verb} {rng.randint(0, 255):03d} {a0} {a1} {a2} {tail}",
            f"045 {verb} --- {b0} {b1} {b2} {tail}",
        ]
        firsts = []
        for sl in sibs:
            m = try_decode(ctx, dtm, sl)
            firsts.append(canon(m.payload) if m is not None else None)
        if all(f is None for f in firsts):
            continue
        ctx.ev()
        ctx.count("sibling.groups")
        ctx.seen(f"sib|{p[-3]}|{verb}")
        for sl, first in zip(reversed(sibs), reversed(firsts)):
            m = try_decode(ctx, dtm, sl)
            again = canon(m.payload) if m is not None else None
            ctx.count("order.compared")
            if again != first:
                ctx.violate(
                    f"C05|determinism|{p[-3]}|after-siblings",
                    "the same packet decoded to a different payload after packets with the same payload bytes (other sequence number / devices) had been decoded",
                    {"line": sl, "first": (first or "")[:300], "again": (again or "")[:300], "siblings": sibs},
                )


def part_arrays(ctx) -> None:
    from ramses_tx.ramses import CODES_SCHEMA

    rng = ctx.rng
    sampler = gen.RegexSampler(rng)
    reps = 160 if ctx.quick else 4000
    codes = [c for i, c in enumerate(sorted(ARRAY_CODES)) if True]
    for code in codes:
        elen, types = ARRAY_CODES[code]
        regex = CODES_SCHEMA[code][" I"]
        for r in range(reps):
            if (r + sum(map(ord, code))) % ctx.nshards != ctx.shard:
                continue
            n = 1 + r % 8
            typ = types[r % len(types)]
            ctl = gen.dev_id(rng, typ)
            addrs = f"--:------ --:------ {ctl}" if typ in (12, 22) else f"{ctl} --:------ {ctl}"
            # sample single elements: payloads of exactly one element length
            els: list[str] = []
            tries = 0
            used: set[str] = set()
            while len(els) < n and tries < 200:
                tries += 1
                s = sampler.sample(regex)
                if len(s) < elen * 2:
                    continue
                body = s[2 : elen * 2]
                # sentinel-valued elements (unconfigured zone, sensor fault, no demand): words 7FFF / FFFF / 0000 / 7F.. / FF..
                # at every 2- and 4-digit boundary - a random draw meets 7FFF7FFF once in 2^32
                roll = rng.random()
                if roll < 0.12:
                    body = ("7FFF" * elen)[: len(body)]
                elif roll < 0.2:
                    body = (body[:2] + "7FFF" * elen)[: len(body)]
                elif roll < 0.26:
                    body = ("FF" * elen)[: len(body)]
                elif roll < 0.32:
                    body = ("00" * elen)[: len(body)]
                elif roll < 0.4:
                    k = 2 * rng.randrange(max(1, len(body) // 2 - 1))
                    body = (body[:k] + rng.choice(("7FFF", "FFFF", "7F", "FF", "EF", "0000")) + body[k:])[: len(body)]
                    body = body + s[2:][len(body) : elen * 2 - 2] if len(body) < elen * 2 - 2 else body
                idx = f"{rng.randrange(12 if code not in ('22C9', '3150') else 8):02X}"
                if idx in used:
                    continue
                el = idx + body
                if not re.match(regex, el):
                    continue
                used.add(idx)
                els.append(el)
            if len(els) < n:
                ctx.count("array.unsampled")
                continue
            els.sort()
            singles = []
            for el in els:
                m = try_decode(ctx, DTM, f"045  I --- {addrs} {code} {elen:03d} {el}")
                if m is None:
                    singles = None
                    break
                p = m.payload
                if isinstance(p, list) and len(p) == 1:
                    p = p[0]  # a lone UFH-controller element is by design a one-element list
                singles.append(p)
            if singles is None:
                ctx.count("array.element_rejected")
                continue
            arr_line = f"045  I --- {addrs} {code} {elen * n:03d} {''.join(els)}"
            m = try_decode(ctx, DTM, arr_line)
            ctx.ev()
            if m is None:
                ctx.count("array.rejected")
                continue
            ctx.count("array.compared")
            ctx.seen(f"array|{code}|{n}|{typ}")
            got = m.payload
            if isinstance(got, dict) and n == 1:
                got = [got]
            if canon(got) != canon(singles):
                ctx.violate(
                    f"C05|array|{code}|differs-from-elements",
                    "an array payload does not decode to the list of what each element decodes to on its own",
                    {"array_line": arr_line, "array_payload": got, "elements_alone": singles},
                )
            elif len(ctx.samples) < 8 and n > 1:
                ctx.sample({"array_line": arr_line, "payload": got})
            check_line(ctx, DTM, arr_line, m)


def part_byte_sweep(ctx) -> None:
    """Every value of every payload byte of short packets that report a ratio or a temperature.

    Sampling reaches a particular byte value (say C9 in a demand field) with probability 1/256 per try;
    the range clause is about *every* value, and these fields are one byte wide, so they are enumerated.
    """
    templates: dict[tuple[str, str, int, str], tuple[str, str]] = {}
    for dtm, line in gen.corpus_frames():
        p = line.split()
        code, payload = p[-3], p[-1]
        if len(payload) > 24:
            continue
        key = (code, line[4:6], len(payload), p[-6][:2])
        if key in templates:
            continue
        msg = decode_quiet(dtm, line)
        if msg is None:
            continue
        leaves = {path.rsplit(".", 1)[-1].replace("[]", "") for path, _ in walk(msg.payload)}
        if leaves & (RATIO_KEYS | TEMP_KEYS):
            templates[key] = (dtm, line)
    mine = [t for i, t in enumerate(sorted(templates.values())) if i % ctx.nshards == ctx.shard]
    if ctx.quick:
        mine = mine[:6]
    for dtm, line in mine:
        head, payload = line.rsplit(" ", 1)
        for pos in range(0, len(payload), 2):
            for b in range(256):
                cand = f"{head} {payload[:pos]}{b:02X}{payload[pos + 2:]}"
                ctx.ev()
                msg = decode_quiet(dtm, cand)
                if msg is None:
                    continue
                ctx.count("sweep.decoded")
                check_line(ctx, dtm, cand, msg)
        ctx.seen(f"sweep|{line.split()[-3]}|{line[4:6]}|{len(payload) // 2}")


def decode_quiet(dtm: str, line: str):  # type: ignore[no-untyped-def]
    try:
        return decode(dtm, line)
    except Exception:  # noqa: BLE001  (rejections and exception classes are C01's subject)
        return None


def part_gateway(ctx) -> None:
    """The same clauses for the messages an application receives from a Gateway: a message handed to a handler
    keeps the payload its own frame carries, whatever arrives next (a controller's zone array comes in two packets,
    the second of which the gateway merges with the first)."""
    import asyncio

    from . import harness, vloop

    rng = ctx.rng
    ctl, ufc = "01:145038", "02:100030"
    cases = []
    for _ in range(6 if ctx.quick else 60):
        n1, n2 = rng.choice((8, 8, 5, 2)), rng.choice((1, 2, 4))
        el = lambda i: f"{i:02X}10{rng.choice(('01F4', '03E8', '0834'))}{rng.choice(('0834', '0BB8', '0DAC'))}"  # noqa: E731
        a = "".join(el(i) for i in range(n1))
        b = "".join(el(n1 + i) for i in range(n2))
        cases.append([f" I --- {ctl} --:------ {ctl} 000A {len(a) // 2:03d} {a}", f" I --- {ctl} --:------ {ctl} 000A {len(b) // 2:03d} {b}"])
        c1 = "".join(f"{i:02X}{rng.choice(('01F4', '076C'))}0A2801" for i in range(4))
        c2 = "".join(f"{4 + i:02X}{rng.choice(('01F4', '076C'))}0A2801" for i in range(rng.choice((1, 2, 4))))
        cases.append([f" I --- {ufc} --:------ {ufc} 22C9 {len(c1) // 2:03d} {c1}", f" I --- {ufc} --:------ {ufc} 22C9 {len(c2) // 2:03d} {c2}"])

    async def go(loop) -> None:
        for pair in cases:
            gap_ms = rng.choice((13, 200, 2500, 4000))
            lines = [("2024-03-01T12:00:00.000000", f"045  I --- {ctl} --:------ {ctl} 1F09 003 FF073F")]
            lines += [(f"2024-03-01T12:00:{1 + (k * gap_ms) // 1000:02d}.{(k * gap_ms) % 1000:03d}000", "045 " + fr) for k, fr in enumerate(pair)]
            held: list[Any] = []
            gwy = harness.file_gateway(lines, config={"disable_discovery": True})
            gwy.add_msg_handler(lambda m: held.append((str(m._pkt), canon(m.payload), m)))
            await asyncio.wait_for(gwy.start(), timeout=30)
            await vloop.drain(loop)
            await gwy.stop()
            ctx.ev()
            ctx.count("gateway.pairs")
            for frame, first, msg in held:
                ctx.count("gateway.messages_held")
                again = canon(msg.payload)
                if again != first:
                    ctx.violate(
                        f"C05|gateway|{frame.split()[-3]}|payload-of-a-delivered-message-changed-later",
                        "the payload of a message already delivered to the application changed when a later packet arrived",
                        {"frame": frame, "when_delivered": first[:300], "later": again[:300], "packets": pair},
                    )
                own = try_decode(ctx, DTM, "045 " + frame)
                if own is not None and frame == pair[0] and canon(own.payload) != first:
                    ctx.violate(
                        f"C05|gateway|{frame.split()[-3]}|first-packet-delivered-with-another-payload",
                        "the first packet of an array was delivered with a payload other than what its frame decodes to",
                        {"frame": frame, "delivered": first[:300], "decodes_to": canon(own.payload)[:300]},
                    )

    vloop.run(go)


def part_stamp_forms(ctx) -> None:
    """'No dependence on clock or host': a line stamped with a timezone-aware time and the same line stamped with
    the equivalent local wall-clock time are the same reception - same payload (1F09's next sync, 2249's next
    setpoint and 313E's zulu time are derived from the stamp), same packet time - whichever side of a daylight-
    saving switch the stamp lies on and whatever zone the host is in (the zone is set per shard, C04's list)."""
    import os
    import time
    from datetime import datetime as dt, timedelta as td, timezone as tz

    from .c04 import TZS

    rng = ctx.rng
    tz_name, tz_rule = TZS[(ctx.shard + 1) % len(TZS)]
    old = os.environ.get("TZ")
    os.environ["TZ"] = tz_rule
    time.tzset()
    try:
        frames = gen.corpus_frames()
        wanted = [f for _, f in frames if f.split()[-3] in ("1F09", "2249", "313E", "313F", "30C9", "0418")]
        pool = wanted[:: max(1, len(wanted) // 40)] + [frames[rng.randrange(len(frames))][1] for _ in range(20 if ctx.quick else 400)]
        for line in pool:
            for month, day, hour in ((1, 15, 13), (7, 15, 13), (3, 31, 0), (10, 27, 1), (12, 31, 23)):
                naive = dt(2024, month, day, hour, 30, 7, 250000)
                epoch = time.mktime(naive.timetuple()) + 0.25
                forms = {
                    "utc": dt.fromtimestamp(epoch, tz=tz.utc).isoformat(timespec="microseconds"),
                    "offset": dt.fromtimestamp(epoch, tz=tz(td(hours=-8))).isoformat(timespec="microseconds"),
                }
                base = try_decode(ctx, naive.isoformat(timespec="microseconds"), line)
                if base is None:
                    continue
                for form, stamp in forms.items():
                    m = try_decode(ctx, stamp, line)
                    ctx.ev()
                    ctx.count("stamp.compared")
                    ctx.seen(f"stamp|{tz_name}|{month}|{form}|{line.split()[-3]}")
                    if m is None or m._pkt.dtm != base._pkt.dtm or canon(m.payload) != canon(base.payload):
                        ctx.violate(
                            f"C05|stamp-form|{'payload' if m is not None and canon(m.payload) != canon(base.payload) else 'packet-time'}-differs",
                            "a line stamped with a timezone-aware time decodes differently from the same line stamped with the equivalent local time",
                            {"line": line, "tz": tz_name, "local_stamp": naive.isoformat(), "aware_stamp": stamp,
                             "held_as": None if m is None else m._pkt.dtm.isoformat(), "payload_local": base.payload, "payload_aware": None if m is None else m.payload},
                        )
    finally:
        if old is None:
            os.environ.pop("TZ", None)
        else:
            os.environ["TZ"] = old
        time.tzset()


def run(ctx) -> None:
    part_siblings(ctx)  # first: while the process-wide caches are still cold
    part_gateway(ctx)
    part_lines(ctx)
    part_arrays(ctx)
    part_byte_sweep(ctx)
    part_stamp_forms(ctx)
