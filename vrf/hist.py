"""Packet histories derived from the real logs (DESIGN §2.5; used by C13, C15, C16).

A history is a list of (dtm, 'RSSI frame') with strictly increasing, unique timestamps, built
from one or two of the repository's recorded system logs by deletion, duplication, windowed
reordering, splicing between systems and field mutation inside the schema regexes (extreme
values).  Everything is drawn from the caller's random.Random.
"""

from __future__ import annotations

import datetime as _dt
import re
from functools import lru_cache
from random import Random
from typing import Any

from . import gen

EXTREMES2 = ("00", "FF", "7F", "EF", "FE", "C8", "01", "0B", "0F", "F9", "FA", "FC")
EXTREMES4 = ("0000", "FFFF", "7FFF", "7EFF", "31FF", "8000", "0001", "FFFE")


@lru_cache(maxsize=1)
def system_logs() -> dict[str, list[tuple[str, str]]]:
    """name -> [(dtm, 'RSSI frame')] for the recorded multi-device logs."""
    out: dict[str, list[tuple[str, str]]] = {}
    pats = (
        "tests/systems/*/packet.log",
        "tests/schemas/log_files/*.log",
        "tests/eavesdrop_schema/*/packet.log",
        "tests/eavesdrop_dev_class/*/packet.log",
        "tests/devices/*.log",
        "tests/schedules/*/packet.log",
        "tests/bindings/*/*.log",
    )
    for pat in pats:
        for path in sorted((gen.REPO_ROOT / "tests").glob(pat)):
            lines = []
            for dtm, rest in gen.read_log(path):
                frame = rest.split("#")[0].split("*")[0].split("<")[0].rstrip()
                if len(frame) >= 52 and frame[41:45].strip():
                    lines.append((dtm, frame))
            if len(lines) >= 3:
                name = str(path.relative_to(gen.REPO_ROOT / "tests" / "tests")).replace("/packet.log", "")
                out[name] = lines
    return out


def home_logs() -> list[str]:
    """Logs that describe one heating system with a controller (the 'known' system of a history)."""
    return [n for n in system_logs() if n.startswith("systems/heat") or n.startswith("systems/_heat") or n.startswith("schemas/log_files/schema_3")]


def split(frame: str) -> dict[str, str] | None:
    if len(frame) < 52:
        return None
    return {
        "rssi": frame[0:3],
        "verb": frame[4:6],
        "seqn": frame[7:10],
        "addrs": frame[11:40],
        "code": frame[41:45],
        "len": frame[46:49],
        "payload": frame[50:].strip(),
    }


def join(p: dict[str, str]) -> str:
    return f"{p['rssi']} {p['verb']} {p['seqn']} {p['addrs']} {p['code']} {len(p['payload']) // 2:03d} {p['payload']}"


def mutate_field(rng: Random, frame: str) -> str | None:
    """A payload that still matches the code's schema regex but carries extreme field values."""
    from ramses_tx.ramses import CODES_SCHEMA

    p = split(frame)
    if p is None:
        return None
    regex = CODES_SCHEMA.get(p["code"], {}).get(p["verb"])
    if not regex:
        return None
    how = rng.random()
    payload = p["payload"]
    if how < 0.35:
        new = gen.sample_payload(rng, p["code"], p["verb"])
        if new is None:
            return None
        if rng.random() < 0.6 and len(payload) >= 2 and len(new) >= 2:
            new = payload[:2] + new[2:]  # keep the index byte: the value lands in a known context
    else:
        if len(payload) < 2:
            return None
        new = payload
        for _ in range(rng.choice((1, 1, 2))):
            if rng.random() < 0.5 and len(new) >= 6:
                i = 2 * rng.randrange(0, len(new) // 2 - 1)
                new = new[:i] + rng.choice(EXTREMES4) + new[i + 4 :]
            else:
                i = 2 * rng.randrange(0, len(new) // 2)
                new = new[:i] + rng.choice(EXTREMES2) + new[i + 2 :]
    if new == payload or len(new) % 2 or not (2 <= len(new) <= 96):
        return None
    try:
        if not re.match(regex, new):
            return None
    except re.error:
        return None
    p["payload"] = new
    return join(p)


def retime(lines: list[tuple[str, str]], start: _dt.datetime | None = None, max_gap: float = 1500.0) -> list[tuple[str, str]]:
    """Strictly increasing unique timestamps; original gaps kept where they are positive."""
    out: list[tuple[str, str]] = []
    prev_src: _dt.datetime | None = None
    now = start or _dt.datetime(2024, 3, 1, 12, 0, 0)
    for dtm, frame in lines:
        try:
            src = _dt.datetime.fromisoformat(dtm)
        except ValueError:
            src = prev_src or now
        gap = (src - prev_src).total_seconds() if prev_src is not None else 0.0
        prev_src = src
        if gap <= 0.0:
            gap = 0.013
        now = now + _dt.timedelta(seconds=min(gap, max_gap))
        out.append((now.isoformat(timespec="microseconds"), frame))
    return out


def disorder(rng: Random, lines: list[tuple[str, str]], meta: dict[str, Any]) -> list[tuple[str, str]]:
    """A log whose lines are not in timestamp order (two logs appended, a merge of several receivers): blocks of
    lines are moved, each line keeping its timestamp."""
    out = list(lines)
    moves = 0
    for _ in range(rng.choice((1, 2, 4))):
        if len(out) < 4:
            break
        a = rng.randrange(len(out) - 1)
        b = min(len(out), a + rng.choice((1, 1, 2, 5, 20)))
        block = out[a:b]
        del out[a:b]
        at = rng.randrange(len(out) + 1)
        out[at:at] = block
        moves += 1
    # a UFH controller's 0005 ('which circuits are in use') and 000C ('which zone a circuit serves') supersede each
    # other by meaning - the later one wins - so among themselves they stay in timestamp order (what a gateway
    # concludes from them in another order is a different history, not a different view of the same one)
    pos = [i for i, (_, f) in enumerate(out) if (q := split(f)) and q["addrs"][:2] == "02" and q["code"] in ("0005", "000C")]
    for i, item in zip(pos, sorted((out[i] for i in pos), key=lambda x: x[0])):
        out[i] = item
    meta["ops"] = list(meta.get("ops", [])) + ["disorder"]
    meta["disordered_blocks"] = moves
    return out


class History:
    def __init__(self, lines: list[tuple[str, str]], meta: dict[str, Any]):
        self.lines, self.meta = lines, meta

    def sig(self) -> str:
        m = self.meta
        return f"{m['base']}|{'+'.join(m['ops'])}|{m.get('foreign', '-')}"


def build(rng: Random, *, max_len: int = 120, base: str | None = None, ops: tuple[str, ...] | None = None) -> History:
    logs = system_logs()
    homes = home_logs()
    base = base or rng.choice(homes)
    src = list(logs[base])
    meta: dict[str, Any] = {"base": base, "ops": []}
    # a window of the base log (prefix-biased: discovery-like packets are at the start)
    if len(src) > max_len:
        if rng.random() < 0.5:
            src = src[:max_len]
        else:
            a = rng.randrange(0, len(src) - max_len)
            src = src[: max_len // 3] + src[a : a + 2 * max_len // 3]
    lines = src
    chosen = ops if ops is not None else tuple(
        op for op in ("delete", "duplicate", "reorder", "splice", "mutate") if rng.random() < 0.55
    ) + (("conflict",) if rng.random() < 0.3 else ()) + (("zone-update",) if rng.random() < 0.35 else ())
    for op in chosen:
        if op == "zone-update":
            continue  # appended after the other operations (below)
        meta["ops"].append(op)
        if op == "delete":
            keep = rng.choice((0.5, 0.8, 0.95))
            lines = [x for x in lines if rng.random() < keep] or lines[:1]
        elif op == "duplicate":
            out = []
            for x in lines:
                out.append(x)
                if rng.random() < 0.15:
                    out.extend([x] * rng.choice((1, 1, 2)))
            lines = out
        elif op == "reorder":
            w = rng.choice((2, 3, 8, 20))
            out = []
            for i in range(0, len(lines), w):
                chunk = lines[i : i + w]
                rng.shuffle(chunk)
                out.extend(chunk)
            lines = out
        elif op == "splice":
            other = rng.choice([n for n in logs if n != base])
            meta["foreign"] = other
            o = list(logs[other])[: max_len // 2]
            how = rng.choice(("interleave", "append", "middle"))
            if how == "append":
                lines = lines + o
            elif how == "middle":
                k = len(lines) // 2
                lines = lines[:k] + o + lines[k:]
            else:
                out, a, b = [], list(lines), o
                while a or b:
                    pick = a if (a and (not b or rng.random() < len(a) / (len(a) + len(b)))) else b
                    out.append(pick.pop(0))
                lines = out
        elif op == "conflict":
            # a device re-bound elsewhere / a second claim: the same packet again under another zone index
            out = []
            n_conf = 0
            for dtm, frame in lines:
                out.append((dtm, frame))
                p = split(frame)
                if p and p["code"] in ("000C", "3150", "2309", "12B0", "000A", "0004") and len(p["payload"]) >= 4 and p["payload"][:1] == "0" and rng.random() < 0.25:
                    if p["code"] == "000C" and len(p["payload"]) >= 12 and rng.random() < 0.5:
                        # the same device(s) named again for the same zone, in another role (sensor <-> actuator ...)
                        role = rng.choice([r for r in ("00", "04", "08", "09", "0A", "0B", "0D", "0E", "0F", "11") if r != p["payload"][2:4]])
                        out.append((dtm, join(dict(p, payload=p["payload"][:2] + role + p["payload"][4:]))))
                        meta["role_conflicts"] = meta.get("role_conflicts", 0) + 1
                    else:
                        idx = rng.choice([f"{i:02X}" for i in range(16) if f"{i:02X}" != p["payload"][:2]][: rng.choice((4, 12, 15))])
                        out.append((dtm, join(dict(p, payload=idx + p["payload"][2:]))))
                    n_conf += 1
            lines = out
            meta["conflicts"] = n_conf
        elif op == "mutate":
            out = []
            n_mut = 0
            rate = rng.choice((0.05, 0.15, 0.4, 0.8))
            for dtm, frame in lines:
                if rng.random() < rate:
                    m = mutate_field(rng, frame)
                    if m is not None:
                        n_mut += 1
                        if rng.random() < 0.5:
                            out.append((dtm, frame))  # the genuine one, then its mutant
                        out.append((dtm, m))
                        continue
                out.append((dtm, frame))
            lines = out
            meta["mutated"] = n_mut
    lines = lines[: 2 * max_len]
    if ops is None and rng.random() < 0.3:
        lines = role_claims(rng, lines, meta)
    if ops is None and rng.random() < 0.4:
        lines = gateway_traffic(rng, lines, meta)
    if "zone-update" in chosen:
        lines = lines + zone_update_tail(rng, lines, meta)
    lines = retime(lines)
    if ops is None and len(lines) > 12 and rng.random() < 0.12:
        # a gateway that has been up for a day or two: what it learned first (the configuration packets at the head of
        # a log live for a day, and count as expired only after two) is 25-47 hours older than the rest
        k = rng.randrange(3, max(4, len(lines) // 3))
        hours = rng.choice((25, 30, 40, 47))
        back = _dt.timedelta(hours=hours)
        lines = [((_dt.datetime.fromisoformat(d) - back).isoformat(timespec="microseconds"), f) for d, f in lines[:k]] + lines[k:]
        meta["ops"].append("old-head")
        meta["old_head"] = {"packets": k, "hours": hours}
    return History(lines, meta)


def dev_hex(dev_id: str) -> str:
    return f"{(int(dev_id[:2]) << 18) | int(dev_id[3:]):06X}"


def role_claims(rng: Random, lines: list[tuple[str, str]], meta: dict[str, Any]) -> list[tuple[str, str]]:
    """A controller names a device it has been heard with for a zone in one role, and (later) the same device
    for the same zone in another role - relays as sensors, sensors as actuators, in either order.  Inserted
    after the first third of the history, a few packets apart."""
    ctls = sorted({q["addrs"][:9] for _, f in lines if (q := split(f)) and q["addrs"][:2] == "01"})
    devs = sorted({q["addrs"][:9] for _, f in lines if (q := split(f)) and q["addrs"][:2] in ("02", "04", "10", "13", "22", "34", "03", "12", "07")})
    if not ctls or not devs:
        return lines
    ctl = rng.choice(ctls)
    # (another controller heard in the history - a neighbour's, after a splice - may be named too)
    devs += [c for c in ctls if c != ctl][:1]
    out = list(lines)
    at = len(out) // 3
    n = 0
    for _ in range(rng.choice((1, 2, 4))):
        dev, idx = rng.choice(devs), f"{rng.randrange(0, 12):02X}"
        roles = rng.sample(("00", "04", "08", "0A", "0B", "0F", "11", "0D", "0E"), 2)
        if rng.random() < 0.6:
            roles[rng.randrange(2)] = "04"  # one of the claims is 'zone sensor'
        for role in roles:
            if role in ("0D", "0E", "0F") and rng.random() < 0.7:
                idx_ = "00"
            else:
                idx_ = idx
            frame = f"045 RP --- {ctl} 18:006402 --:------ 000C 006 {idx_}{role}00{dev_hex(dev)}"
            at = min(len(out), at + rng.choice((0, 1, 5)))
            dtm = out[at - 1][0] if at else (out[0][0] if out else "2024-03-01T12:00:00.000000")
            out.insert(at, (dtm, frame))
            at += 1
            n += 1
    # rival claims: two different devices named for one single-holder role (zone sensor, appliance control,
    # DHW sensor / valve) - the first of them possibly a device that is never heard itself
    for _ in range(rng.choice((0, 1, 1, 2))):
        role = rng.choice(("04", "0F", "0F", "0D", "0E", "0E"))
        idx_ = f"{rng.randrange(0, 12):02X}" if role == "04" else "00"
        if role == "0E" and rng.random() < 0.5:
            # one relay named as the hot-water valve (000E) and as the heating valve (010E) of the hot-water system
            dev = rng.choice([d for d in devs if d[:2] == "13"] or [f"13:{rng.randrange(90000, 99999):06d}"])
            for ix in rng.sample(("00", "01"), 2):
                frame = f"045 RP --- {ctl} 18:006402 --:------ 000C 006 {ix}0E00{dev_hex(dev)}"
                at = min(len(out), at + rng.choice((0, 1, 5)))
                dtm = out[at - 1][0] if at else (out[0][0] if out else "2024-03-01T12:00:00.000000")
                out.insert(at, (dtm, frame))
                at += 1
                n += 1
            meta["one_relay_both_dhw_valves"] = meta.get("one_relay_both_dhw_valves", 0) + 1
            continue
        typ = {"04": ("34", "22", "04", "03"), "0F": ("13", "10"), "0D": ("07",), "0E": ("13",)}[role]
        heard = [d for d in devs if d[:2] in typ]
        ghost = f"{rng.choice(typ)}:{rng.randrange(90000, 99999):06d}"
        pair = [ghost if rng.random() < 0.6 or not heard else rng.choice(heard), rng.choice(heard) if heard and rng.random() < 0.7 else f"{rng.choice(typ)}:{rng.randrange(80000, 89999):06d}"]
        if rng.random() < 0.3:
            pair.reverse()
        for dev in pair:
            frame = f"045 RP --- {ctl} 18:006402 --:------ 000C 006 {idx_}{role}00{dev_hex(dev)}"
            at = min(len(out), at + rng.choice((0, 1, 5, 20)))
            dtm = out[at - 1][0] if at else (out[0][0] if out else "2024-03-01T12:00:00.000000")
            out.insert(at, (dtm, frame))
            at += 1
            n += 1
        meta["rival_claims"] = meta.get("rival_claims", 0) + 1
    meta["ops"].append("role-claims")
    meta["role_claims"] = n
    return out


def gateway_traffic(rng: Random, lines: list[tuple[str, str]], meta: dict[str, Any]) -> list[tuple[str, str]]:
    """What a gateway (this one in an earlier life, or another one) exchanges with a controller: sync-cycle
    and clock queries with their replies, and writes (clock, setpoints, modes) with their acknowledgements.
    Each exchange (request/write, then reply) is inserted at a random place, keeping its own order."""
    ctls = sorted({q["addrs"][:9] for _, f in lines if (q := split(f)) and q["addrs"][:2] == "01"})
    if not ctls:
        return lines
    ctl = rng.choice(ctls)
    out = list(lines)
    n = 0
    for _ in range(rng.choice((1, 2, 4, 8))):
        gw = rng.choice(("18:006402", "18:006402", "18:013393", "30:258720"))
        idx = f"{rng.randrange(0, 12):02X}"
        kind = rng.choice(("rq1F09", "rq1F09", "rq313F", "w313F", "w313F", "w2309", "w2349", "w2E04", "w1F41", "w000A", "dev10A0", "rq0418", "rq0418"))
        if kind == "rq0418":
            # somebody reads the controller's fault log: one entry or a few, from the top or from the middle (the
            # exchange for the first entries may have been missed), to the end (a null entry) or not
            first = rng.choice((0, 0, 1, 5, 0x3E, 0x3F))
            seq = []
            for k in range(rng.choice((1, 1, 2, 4))):
                i = min(first + k, 0x3F)
                mo, d, h = rng.randrange(1, 13), rng.randrange(1, 28), rng.randrange(24)
                ts = (mo << 36) | (d << 31) | (24 << 24) | (h << 19) | ((59 - i % 60) << 13) | (7 << 7) | 0x7F
                seq.append(f"RQ --- {gw} {ctl} --:------ 0418 003 0000{i:02X}")
                if rng.random() < 0.2:
                    seq.append(f"RP --- {ctl} {gw} --:------ 0418 022 000000B0000000000000000000007FFFFF7000000000")
                    break
                seq.append(f"RP --- {ctl} {gw} --:------ 0418 022 00{rng.choice(('00', '40', 'C0'))}{i:02X}B0{rng.choice(('04', '06', '01'))}{rng.choice(('00', '01', 'FC'))}{rng.choice(('00', '04', '05'))}0000{ts:012X}FFFF7000{rng.choice(('000001', '12D687', 'FFFFFF'))}")
            at = rng.randrange(len(out) + 1)
            dtm = out[at - 1][0] if at else (out[0][0] if out else "2024-03-01T12:00:00.000000")
            for j, frame in enumerate(seq):
                if rng.random() < 0.85:  # (some of it is not heard)
                    out.insert(at + j, (dtm, "045 " + frame))
            n += 1
            continue
        if kind == "dev10A0":
            # a hot-water sensor asks its controller for the DHW parameters (as real ones do) and is answered; later a
            # gateway asks the same and gets a (newer) answer
            sens = f"07:{rng.randrange(40000, 49999):06d}"
            sp = f"{rng.randrange(3000, 8500):04X}"
            seq = [f"RQ --- {sens} {ctl} --:------ 10A0 001 00", f"RP --- {ctl} {sens} --:------ 10A0 006 00{sp}0003E8", f"RQ --- {gw} {ctl} --:------ 10A0 001 00", f"RP --- {ctl} {gw} --:------ 10A0 006 00{sp}0001F4"]
            at = rng.randrange(len(out) + 1)
            dtm = out[at - 1][0] if at else (out[0][0] if out else "2024-03-01T12:00:00.000000")
            for j, frame in enumerate(seq):
                out.insert(at + j, (dtm, "045 " + frame))
            n += 1
            continue
        t313 = f"{rng.randrange(60):02X}{rng.randrange(60):02X}{rng.randrange(24):02X}{rng.randrange(1, 29):02X}{rng.randrange(1, 13):02X}07E8"
        temp = f"{rng.randrange(500, 3500):04X}"
        if kind == "rq1F09":
            left = rng.choice((0, 5, 50, 600, 1300, 1855))
            pair = (f"RQ --- {gw} {ctl} --:------ 1F09 001 00", f"RP --- {ctl} {gw} --:------ 1F09 003 00{left:04X}")
        elif kind == "rq313F":
            pair = (f"RQ --- {gw} {ctl} --:------ 313F 001 00", f"RP --- {ctl} {gw} --:------ 313F 009 00FC{t313}")
        elif kind == "w313F":
            pair = (f" W --- {gw} {ctl} --:------ 313F 009 0060{t313}", f" I --- {ctl} {gw} --:------ 313F 009 00FC{t313}")
        elif kind == "w2309":
            pair = (f" W --- {gw} {ctl} --:------ 2309 003 {idx}{temp}", f" I --- {ctl} {gw} --:------ 2309 003 {idx}{temp}")
        elif kind == "w2349":
            body = f"{idx}{temp}{rng.choice(('00', '02'))}FFFFFF"
            pair = (f" W --- {gw} {ctl} --:------ 2349 007 {body}", f" I --- {ctl} {gw} --:------ 2349 007 {body}")
        elif kind == "w2E04":
            body = f"{rng.choice(('00', '01', '02', '03'))}FFFFFFFFFFFF00"
            pair = (f" W --- {gw} {ctl} --:------ 2E04 008 {body}", f" I --- {ctl} {gw} --:------ 2E04 008 {body}")
        elif kind == "w1F41":
            body = f"00{rng.choice(('00', '01'))}{rng.choice(('00', '02'))}FFFFFF"
            pair = (f" W --- {gw} {ctl} --:------ 1F41 006 {body}", f" I --- {ctl} {gw} --:------ 1F41 006 {body}")
        else:
            body = f"{idx}1001F40DAC"
            pair = (f" W --- {gw} {ctl} --:------ 000A 006 {body}", f" I --- {ctl} {gw} --:------ 000A 006 {body}")
        if rng.random() < 0.15:
            pair = pair[:1]  # the reply was not heard
        at = rng.randrange(len(out) + 1)
        dtm = out[at - 1][0] if at else (out[0][0] if out else "2024-03-01T12:00:00.000000")
        for j, frame in enumerate(pair):
            out.insert(at + j, (dtm, "045 " + frame))
        n += 1
    meta["ops"].append("gateway-traffic")
    meta["gateway_exchanges"] = n
    return out


ARRAY_ELEM = {"000A": 12, "2309": 6, "30C9": 6, "22C9": 12, "2249": 14, "0009": 6}


def zone_update_tail(rng: Random, lines: list[tuple[str, str]], meta: dict[str, Any]) -> list[tuple[str, str]]:
    """What a controller does all day: broadcast an array, later announce one changed element.

    Appends (minutes apart): a filler packet, an array ' I' seen earlier in the history, the filler
    again, a single-element ' I' of the same code and source cut from that array, the filler once
    more.  The repeated filler supersedes its earlier copies, so in a snapshot the array and the
    single-element packet end up next to each other although they were sent minutes apart.
    """
    arrays = []
    for dtm, f in lines:
        p = split(f)
        if p and p["verb"] == " I" and p["code"] in ARRAY_ELEM and p["addrs"][:9] == p["addrs"][20:29]:
            n = ARRAY_ELEM[p["code"]]
            if len(p["payload"]) >= 2 * n and len(p["payload"]) % n == 0:
                arrays.append((dtm, f, p, n))
    fillers = [x for x in lines if (q := split(x[1])) and q["code"] in ("1F09", "3150", "1060", "3B00", "0008")]
    if not arrays or not fillers:
        return []
    dtm, f, p, n = rng.choice(arrays)
    filler = rng.choice(fillers)
    k = rng.randrange(len(p["payload"]) // n)
    single = dict(p, payload=p["payload"][k * n : (k + 1) * n])
    base = _dt.datetime.fromisoformat(lines[-1][0]) if lines else _dt.datetime(2024, 3, 1)
    out = []
    t = base
    for gap, frame in ((120, filler[1]), (0.06, f), (120, filler[1]), (rng.choice((30, 454, 1200)), join(single)), (147, filler[1])):
        t = t + _dt.timedelta(seconds=gap)
        out.append((t.isoformat(timespec="microseconds"), frame))
    meta["ops"].append("zone-update:" + p["code"])
    return out
