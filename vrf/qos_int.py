"""Integration slice for C07 / C09: the send machinery on the *real* serial transport.

The scripted-transport runner (vrf/qos.py) decides the timing-exact clauses; this slice runs the same
client-boundary oracle end to end: a real Gateway on a fake serial port (real PortTransport: signature
handshake, read path, write-spacing semaphore, duty-cycle wrapper with the library's debug switch on,
sync-cycle avoidance), a responder on the virtual air, echo/reply faults from a seeded script, serial
read errors and reconnects.  Judged per call: ends within min(timeout, 20) s (+ the transport's own
sync-avoidance / spacing allowance), result is this command's echo or matching reply, an exception is a
ProtocolError; afterwards a probe to a responsive device succeeds and nothing reached the loop's
exception handler.
"""

from __future__ import annotations

import asyncio
import random
from typing import Any

from . import air as airmod, harness, vloop
from .boundary import clocks_patched
from .mon import innermost_lib_frame

GWY_ID, CTL = "18:006402", "01:145038"
SLACK = 1.0  # spacing semaphore (50 ms / write), impersonation notice, sync-cycle avoidance (< 0.2 s)


class Script:
    def __init__(self, rng) -> None:
        self.rng = rng
        self.on = True
        self.p_echo = rng.choice((0.0, 0.0, 0.2, 0.5, 1.0))
        self.p_rply = rng.choice((0.0, 0.0, 0.2, 0.5, 1.0))
        self.delay = rng.choice((0.0, 0.0, 0.45, 0.5, 0.55, 1.2))

    def __call__(self, kind: str, frame: str, target: str) -> list[float]:
        base = 0.004 if kind == "echo" else 0.012
        if kind == "echo" and " 7FFF " in frame and getattr(self, "mute_7fff", False):
            return []  # a stick that never echoes its signature / puzzle packets: the gateway is never identified
        if not self.on:
            return [base]
        if kind == "echo":
            return [] if self.rng.random() < self.p_echo else [base + (self.delay if self.rng.random() < 0.3 else 0.0)]
        if target != "sim" and frame[:2] in ("RP", " I"):
            return [] if self.rng.random() < self.p_rply else [base + (self.delay if self.rng.random() < 0.3 else 0.0)]
        return [base]


async def episode(loop: vloop.VirtualLoop, ctx, pid: str, trial: int) -> None:
    from ramses_tx import Command, exceptions as exc
    from ramses_tx.const import Priority

    rng = random.Random(f"qosint/{ctx.seed}/{trial}")
    script = Script(rng)
    script.mute_7fff = rng.random() < 0.15
    if pid == "C08" and trial % 2 == 0:  # the ledger needs retransmissions: heavy loss in half of its episodes
        script.p_echo, script.p_rply = rng.choice(((1.0, 1.0), (1.0, 1.0), (0.5, 1.0), (1.0, 0.5), (0.8, 0.8)))
    script.on = False
    air = airmod.Air(loop, fault=script)

    def responder(frame: str) -> None:
        p = frame.split(" ")
        if frame[:2] == "RQ" and p[-5] == CTL and p[-3] in ("30C9", "2309", "000A"):
            idx = p[-1][:2]
            body = {"30C9": f"{idx}07D0", "2309": f"{idx}0834", "000A": f"{idx}1001F40DAC"}[p[-3]]
            air.inject(f"RP --- {CTL} {p[-6]} --:------ {p[-3]} {len(body) // 2:03d} {body}", delay=0.03)
        elif frame[:2] == " W" and p[-5] == CTL and p[-3] == "2309":
            air.inject(f" I --- {CTL} {p[-6]} --:------ 2309 003 {p[-1]}", delay=0.03)

    air.add_listener(responder)
    # gateway QoS mode: default (wait_for_reply honoured for a few codes only) or enabled (honoured as asked)
    qos_mode = rng.choice((None, False, False))
    gwy = await harness.start_port_gateway(loop, air, GWY_ID, config={"disable_discovery": True, **({} if qos_mode is None else {"disable_qos": qos_mode})})
    if rng.random() < 0.4:  # a controller's sync cycle is being tracked (sync avoidance is live)
        air.inject(f" I --- {CTL} --:------ {CTL} 1F09 003 FF{rng.choice((5, 50, 1855)):04X}", faultable=False)
    await asyncio.sleep(0.3)
    # writes held back by the transport when their caller gives up: (a) the duty-cycle limiter with an exhausted
    # allowance, (b) a sync cycle that is imminent at the moment of the call
    import ramses_tx.transport as tr_mod

    limiter_on = rng.random() < 0.2
    holdback = not limiter_on and rng.random() < 0.25
    if limiter_on:
        tr_mod._DBG_DISABLE_DUTY_CYCLE_LIMIT = False
        for _ in range(30):  # about one bucket (23 040 bits) of long frames
            await gwy._transport.write_frame(" I --- 18:000730 63:262142 --:------ 7FFF 048 " + "00" * 48)
        ctx.count("int.episodes_with_exhausted_duty_cycle")
    if holdback:
        ctx.count("int.episodes_with_sync_holdback")
    meta = {"seed": ctx.seed, "trial": trial, "duty_cycle_exhausted": limiter_on, "sync_holdback": holdback, "stick_never_echoes_7FFF": script.mute_7fff, "disable_qos": qos_mode, "p_echo_lost": script.p_echo, "p_reply_lost": script.p_rply, "delay": script.delay}
    history: list[dict[str, Any]] = []
    n_unhandled = len(loop.unhandled)

    async def call(n: int) -> None:
        code = rng.choice(("30C9", "2309", "000A", "W2309", "faked30C9"))
        idx = f"{n % 12:02X}"
        if code == "W2309":
            cmd = Command.from_attrs(" W", CTL, "2309", f"{idx}07D0")
        elif code == "faked30C9":  # sent in a faked sensor's name: an impersonation notice goes out first
            cmd = Command.put_sensor_temp(f"03:1234{n:02d}", 15.0 + n / 4)  # (one faked sensor per caller: headers stay distinct)
        else:
            cmd = Command.from_attrs("RQ", CTL, code, idx)
        wfr = rng.choice((None, True, False))
        timeout = rng.choice((0.5, 1.5, 3.5, 20, 25))
        retries = rng.choice((0, 1, 3))
        if holdback and n == 0:
            timeout = rng.choice((0.03, 0.05, 0.15))  # gives up while its frame waits out the sync cycle
            air.inject(f" I --- {CTL} --:------ {CTL} 1F09 003 FF0001", faultable=False)  # a sync cycle 0.1 s away
            await asyncio.sleep(rng.choice((0.001, 0.01, 0.03)))
        else:
            await asyncio.sleep(rng.choice((0.0, 0.0, 0.01, 0.3, 2.0)))
        rec: dict[str, Any] = {"n": n, "cmd": str(cmd), "wait_for_reply": wfr, "timeout": timeout, "max_retries": retries, "call_vt": loop.time(), "impersonated": code == "faked30C9"}
        history.append(rec)
        ctx.count("int.calls")
        ctx.count("int.calls.impersonated" if code == "faked30C9" else "int.calls.own")
        try:
            pkt = await asyncio.wait_for(gwy.async_send_cmd(cmd, max_retries=retries, timeout=timeout, wait_for_reply=wfr, priority=Priority(rng.choice((-2, 0, 2)))), timeout=60)
            rec["result"] = str(pkt)
        except asyncio.TimeoutError:
            rec["open"] = True
        except Exception as err:  # noqa: BLE001
            rec["exc"], rec["mro"], rec["where"], rec["text"] = type(err).__name__, [k.__name__ for k in type(err).__mro__], innermost_lib_frame(err), str(err)[:120]
        rec["return_vt"] = loop.time()

    script.on = True
    tasks = [asyncio.ensure_future(call(n)) for n in range(rng.choice((1, 2, 4, 8)))]
    if rng.random() < 0.25:  # a serial read error in the middle: the transport reports connection lost
        from serial import SerialException  # type: ignore[import-untyped]

        loop.call_later(rng.choice((0.1, 0.6, 2.0)), gwy._vrf_port.stage, SerialException("injected: device disconnected"))
        meta["serial_error"] = True
    await asyncio.wait(tasks, timeout=120)
    script.on = False
    await asyncio.sleep(30.0)
    for rec in history:
        bound = min(rec["timeout"], 20) + SLACK + (20.0 if rec.get("impersonated") else 0.0)  # + the notice's own send
        took = rec.get("return_vt", 1e9) - rec["call_vt"]
        if pid == "C07":
            if rec.get("open") or took > bound + 1e-6:
                ctx.violate("C07|integration|call-did-not-end-in-bound", "on the real serial transport a send did not finish within the caller's timeout (capped at 20 s)", {"call": rec, "bound_s": bound, "episode": meta})
            if "exc" in rec and "ProtocolError" not in rec["mro"]:
                ctx.violate(f"C07|integration|foreign-exception|{rec['exc']}|{rec['where']}", "on the real serial transport a send raised something that is not a protocol error", {"call": rec, "episode": meta})
            if "result" in rec:
                p, q = rec["cmd"].split(" "), rec["result"].split(" ")
                own_echo = q[0:1] + q[2:] == p[0:1] + p[2:] or (q[-3:] == p[-3:] and rec["result"][:2] == rec["cmd"][:2])
                own_reply = q[-3] == p[-3] and q[-6] == CTL and q[-1][:2] == p[-1][:2] and rec["result"][:2] in ("RP", " I")
                if not (own_echo or own_reply):
                    ctx.violate("C07|integration|foreign-packet-returned", "on the real serial transport a send returned a packet that is neither its echo nor its reply", {"call": rec, "episode": meta})
    if pid == "C08":
        # the write ledger, read at the serial port itself (what actually went to the stick)
        def owner(frame: str) -> int | None:
            q = frame.split(" ")
            for rec in history:
                p_ = rec["cmd"].split(" ")
                if q[0:1] == p_[0:1] and q[-3:] == p_[-3:] and frame[:2] == rec["cmd"][:2]:
                    return rec["n"]
            return None

        port_writes = [(vt, owner(fr), fr) for vt, _port, fr in air.tx_log]
        port_writes = [w for w in port_writes if w[1] is not None]
        ctx.count("int.port_writes", len(port_writes))
        runs: list[int] = []
        for _vt, n, _fr in port_writes:
            if not runs or runs[-1] != n:
                runs.append(n)
        if len(runs) != len(set(runs)):
            ctx.violate("C08|integration|interleaved-commands", "at the serial port the transmissions of two commands interleave (A, B, A)", {"runs": runs[:10], "writes": [(round(v, 4), n) for v, n, _ in port_writes][:20], "episode": meta})
        for rec in history:
            mine = [vt for vt, n, _fr in port_writes if n == rec["n"]]
            limit = 1 + min(rec["max_retries"], 3)
            if len(mine) > limit:
                ctx.violate("C08|integration|too-many-transmissions", "at the serial port a command was written more than 1 + min(max_retries, 3) times", {"call": rec, "writes_vt": mine, "limit": limit, "episode": meta})
            if "exc" in rec and "Exceeded maximum retries" in rec.get("text", "") and len(mine) != limit and not meta.get("serial_error") and not meta.get("duty_cycle_exhausted") and "cmd_=7FFF" not in rec.get("text", ""):  # (not: its impersonation notice gave up)
                ctx.violate("C08|integration|gave-up-early", "a command failed for 'maximum retries' before 1 + min(max_retries, 3) writes reached the serial port", {"call": rec, "writes_vt": mine, "limit": limit, "episode": meta})
            if not rec.get("open") and "return_vt" in rec:
                late = [vt for vt in mine if vt > rec["return_vt"] + 1e-9]
                if late:
                    ctx.violate("C08|integration|transmitted-after-completion", "a command was written to the serial port after its caller had been given a result or an error", {"call": rec, "late_writes_vt": late, "episode": meta})
            gaps = [round(b - a, 4) for a, b in zip(mine, mine[1:])]
            ctx.seen(f"int|writes={len(mine)}/{limit}|{'ok' if 'result' in rec else rec.get('exc', 'open')}")
            if gaps:
                ctx.seen("int|gaps|" + ",".join(f"{g:.1f}" for g in gaps))
    if pid == "C09":
        if meta.get("serial_error") and gwy._protocol._transport is not None and gwy._protocol._transport.is_closing():
            ctx.count("int.link_lost")  # a lost serial link is not re-opened by the library: no probe possible
        else:
            ctx.count("int.probes")
            try:
                await asyncio.wait_for(gwy.async_send_cmd(Command.from_attrs("RQ", CTL, "30C9", "0B"), max_retries=1, timeout=5, wait_for_reply=True), timeout=30)
            except Exception as err:  # noqa: BLE001
                ctx.violate(
                    f"C09|integration|probe-failed|{type(err).__name__}",
                    "on the real serial transport a fresh command to a responsive device fails after the episode",
                    {"error": repr(err)[:160], "calls": history, "episode": meta},
                )
        for u in loop.unhandled[n_unhandled:]:
            if "Coding error" in (u.get("text") or "") or (u.get("where") or "").startswith(("protocol", "transport")):
                ctx.violate(f"C09|integration|unhandled|{u['type']}|{u['where']}", "on the real serial transport an exception was left unhandled in the event loop", {"exception": u, "episode": meta})
    ctx.ev()
    ctx.count("int.episodes")
    outcomes = "+".join(sorted({"ok" if "result" in r else r.get("exc", "open") for r in history}))
    ctx.seen(f"int|callers={len(history)}|echo={script.p_echo}|rply={script.p_rply}|{'serr' if meta.get('serial_error') else ''}|{outcomes}")
    tr_mod._DBG_DISABLE_DUTY_CYCLE_LIMIT = True
    await harness.stop_gateway(gwy)
    air.close()


async def episode_mqtt(loop: vloop.VirtualLoop, ctx, pid: str, trial: int) -> None:
    """The same client-boundary judgement with the gateway on the MQTT transport (a RAMSES_ESP stick behind a
    broker): publishes are the writes, '{ts, msg}' envelopes on the rx topic are the reads; echoes and replies are
    lost / delayed by a seeded script; the status topic may flap (offline pauses the protocol, online resumes it)."""
    import json

    from ramses_rf import Gateway
    from ramses_tx import Command
    from ramses_tx.const import Priority

    from .boundary import FakeMqttClient, mqtt_patched

    rng = random.Random(f"qosmqtt/{ctx.seed}/{trial}")
    script = Script(rng)
    topic = f"RAMSES/GATEWAY/{GWY_ID}"
    meta = {"seed": ctx.seed, "trial": trial, "transport": "mqtt", "p_echo_lost": script.p_echo, "p_reply_lost": script.p_rply, "delay": script.delay}
    history: list[dict[str, Any]] = []
    pubs: list[tuple[float, str]] = []
    with mqtt_patched():
        n0 = len(FakeMqttClient.instances)
        qos_mode = rng.choice((None, False, False))
        meta["disable_qos"] = qos_mode
        gwy = Gateway("mqtt://u:p@127.0.0.1:1883", config={"disable_discovery": True, **({} if qos_mode is None else {"disable_qos": qos_mode})})

        def online() -> None:
            if len(FakeMqttClient.instances) > n0:
                FakeMqttClient.instances[-1].deliver(topic, b"online")
            else:
                loop.call_later(0.01, online)

        loop.call_later(0.01, online)
        await asyncio.wait_for(gwy.start(), timeout=30)
        client = FakeMqttClient.instances[-1]

        def rx(frame: str, rssi: str = "045") -> None:
            ts = vloop.make_virtual_datetime(vloop.current).now().isoformat(timespec="microseconds")
            client.deliver(topic + "/rx", json.dumps({"ts": ts, "msg": f"{rssi} {frame}"}).encode())

        orig_publish = client.publish

        def publish(tp: str, payload: str | None = None, qos: int = 0):  # type: ignore[no-untyped-def]
            ret = orig_publish(tp, payload, qos)
            try:
                frame = json.loads(payload or "{}").get("msg", "")
            except Exception:  # noqa: BLE001
                frame = ""
            if not tp.endswith("/tx") or not frame:
                return ret
            pubs.append((loop.time(), frame))
            echo = frame.replace("18:000730", GWY_ID, 1) if frame[7:16] == "18:000730" else frame
            for d in script("echo", echo, "mqtt"):
                loop.call_later(d, rx, echo, "000")
            p_ = frame.split(" ")
            if frame[:2] == "RQ" and p_[-5] == CTL and p_[-3] in ("30C9", "2309", "000A"):
                idx = p_[-1][:2]
                body = {"30C9": f"{idx}07D0", "2309": f"{idx}0834", "000A": f"{idx}1001F40DAC"}[p_[-3]]
                reply = f"RP --- {CTL} {GWY_ID} --:------ {p_[-3]} {len(body) // 2:03d} {body}"
            elif frame[:2] == " W" and p_[-5] == CTL and p_[-3] == "2309":
                reply = f" I --- {CTL} {GWY_ID} --:------ 2309 003 {p_[-1]}"
            else:
                return ret
            for d in script("rf", reply, "gwy"):
                loop.call_later(0.03 + d, rx, reply)
            return ret

        client.publish = publish  # type: ignore[method-assign]
        script.on = False
        await asyncio.sleep(0.3)
        n_unhandled = len(loop.unhandled)

        async def call(n: int, flood: bool = False) -> None:
            code = rng.choice(("30C9", "2309", "000A", "W2309"))
            idx = f"{n % 12:02X}"
            cmd = Command.from_attrs(" W", CTL, "2309", f"{idx}07D0") if code == "W2309" else Command.from_attrs("RQ", CTL, code, idx)
            wfr, timeout, retries = rng.choice((None, True, False)), rng.choice((0.5, 1.5, 3.5, 20, 25)), rng.choice((0, 1, 3))
            if flood:
                wfr, timeout, retries = False, 0.5, 0
            else:
                await asyncio.sleep(rng.choice((0.0, 0.0, 0.01, 0.3, 2.0)))
            rec: dict[str, Any] = {"n": n, "cmd": str(cmd), "wait_for_reply": wfr, "timeout": timeout, "max_retries": retries, "call_vt": loop.time()}
            history.append(rec)
            ctx.count("mqtt.calls")
            try:
                pkt = await asyncio.wait_for(gwy.async_send_cmd(cmd, max_retries=retries, timeout=timeout, wait_for_reply=wfr, priority=Priority(rng.choice((-2, 0, 2)))), timeout=60)
                rec["result"] = str(pkt)
            except asyncio.TimeoutError:
                rec["open"] = True
            except Exception as err:  # noqa: BLE001
                rec["exc"], rec["mro"], rec["where"], rec["text"] = type(err).__name__, [k.__name__ for k in type(err).__mro__], innermost_lib_frame(err), str(err)[:120]
            rec["return_vt"] = loop.time()

        script.on = True
        if trial % 6 == 5:
            # a burst that spends the transport's whole transmit allowance (sends back to back, nothing lost on the
            # air): once it is spent writes are dropped by design - but only until the allowance has built up again
            script.on = False
            meta["flood"] = n_flood = rng.choice((170, 200, 260))
            ctx.count("mqtt.flood_episodes")

            async def flood_caller() -> None:
                for n in range(n_flood):
                    await call(n, flood=True)

            tasks = [asyncio.ensure_future(flood_caller())]
        else:
            tasks = [asyncio.ensure_future(call(n)) for n in range(rng.choice((1, 2, 4, 8)))]
        if rng.random() < 0.3:  # the stick drops off the broker and comes back
            t_off = rng.choice((0.05, 0.4, 1.5))
            loop.call_later(t_off, client.deliver, topic, b"offline")
            loop.call_later(t_off + rng.choice((0.1, 1.0, 6.0)), client.deliver, topic, b"online")
            meta["status_flap"] = True
        if rng.random() < 0.5:  # another ramses_esp on the same broker (the default topic is a wild card) comes and goes
            other = "RAMSES/GATEWAY/18:222222"
            for t_, what in sorted((rng.choice((0.02, 0.2, 0.9, 2.5)), rng.choice((b"online", b"offline", b"online"))) for _ in range(rng.choice((1, 2, 3)))):
                loop.call_later(t_, client.deliver, other, what)
            meta["other_gateway_on_broker"] = True
            ctx.count("mqtt.episodes_with_other_gateway")
        await asyncio.wait(tasks, timeout=120)
        script.on = False
        await asyncio.sleep(30.0)
        for rec in history:
            bound = min(rec["timeout"], 20) + SLACK
            took = rec.get("return_vt", 1e9) - rec["call_vt"]
            if pid == "C07":
                if rec.get("open") or took > bound + 1e-6:
                    ctx.violate("C07|integration-mqtt|call-did-not-end-in-bound", "on the MQTT transport a send did not finish within the caller's timeout (capped at 20 s)", {"call": rec, "bound_s": bound, "episode": meta})
                if "exc" in rec and "ProtocolError" not in rec["mro"]:
                    ctx.violate(f"C07|integration-mqtt|foreign-exception|{rec['exc']}|{rec['where']}", "on the MQTT transport a send raised something that is not a protocol error", {"call": rec, "episode": meta})
                if "result" in rec:
                    p, q = rec["cmd"].split(" "), rec["result"].split(" ")
                    own_echo = q[0:1] + q[2:] == p[0:1] + p[2:] or (q[-3:] == p[-3:] and rec["result"][:2] == rec["cmd"][:2])
                    own_reply = q[-3] == p[-3] and q[-6] == CTL and q[-1][:2] == p[-1][:2] and rec["result"][:2] in ("RP", " I")
                    if not (own_echo or own_reply):
                        ctx.violate("C07|integration-mqtt|foreign-packet-returned", "on the MQTT transport a send returned a packet that is neither its echo nor its reply", {"call": rec, "episode": meta})
            if pid == "C08" and not meta.get("flood"):  # (a flood repeats its frames: publishes cannot be told apart)
                mine = [vt for vt, fr in pubs if fr.split(" ")[-3:] == rec["cmd"].split(" ")[-3:] and fr[:2] == rec["cmd"][:2]]
                limit = 1 + min(rec["max_retries"], 3)
                ctx.count("mqtt.publishes", len(mine))
                if len(mine) > limit:
                    ctx.violate("C08|integration-mqtt|too-many-transmissions", "on the MQTT transport a command was published more than 1 + min(max_retries, 3) times", {"call": rec, "publishes_vt": mine, "limit": limit, "episode": meta})
                if not rec.get("open") and "return_vt" in rec and any(vt > rec["return_vt"] + 1e-9 for vt in mine):
                    ctx.violate("C08|integration-mqtt|transmitted-after-completion", "a command was published after its caller had been given a result or an error", {"call": rec, "publishes_vt": mine, "episode": meta})
        if pid == "C09":
            ctx.count("mqtt.probes")
            # the fresh command: a request, or a frame sent in the gateway's own name (its echo carries the real id)
            probe = Command.from_attrs("RQ", CTL, "30C9", "0B") if rng.random() < 0.5 else Command(" I --- 18:000730 --:------ 18:000730 0008 002 00C8")
            meta["probe"] = str(probe)
            try:
                await asyncio.wait_for(gwy.async_send_cmd(probe, max_retries=1, timeout=5, wait_for_reply=probe.verb == "RQ"), timeout=30)
            except Exception as err:  # noqa: BLE001
                ctx.violate(f"C09|integration-mqtt|probe-failed|{type(err).__name__}", "on the MQTT transport a fresh command to a responsive device fails after the episode", {"error": repr(err)[:160], "calls": history, "episode": meta})
            for u in loop.unhandled[n_unhandled:]:
                if "Coding error" in (u.get("text") or "") or (u.get("where") or "").startswith(("protocol", "transport")):
                    ctx.violate(f"C09|integration-mqtt|unhandled|{u['type']}|{u['where']}", "on the MQTT transport an exception was left unhandled in the event loop", {"exception": u, "episode": meta})
        ctx.ev()
        ctx.count("mqtt.episodes")
        outcomes = "+".join(sorted({"ok" if "result" in r else r.get("exc", "open") for r in history}))
        ctx.seen(f"mqtt|callers={len(history)}|echo={script.p_echo}|rply={script.p_rply}|{'flap' if meta.get('status_flap') else ''}|{outcomes}")
        try:
            await asyncio.wait_for(gwy.stop(), timeout=5)
        except Exception:  # noqa: BLE001
            pass


def _run_watched(ctx, pid: str, go, what: str, wall: float = 60.0) -> None:
    """Run one integration episode under a wall-clock alarm: a loop thread blocked for good inside the library
    (the sender's own threading lock left held by an assertion) is a hang, i.e. a refutation - anything else that
    trips the alarm is inconclusive."""
    import signal

    from .qos import EpisodeStuck

    def on_alarm(signum, frame):  # type: ignore[no-untyped-def]
        where = []
        f = frame
        while f is not None:
            if "/ramses_" in f.f_code.co_filename:
                where.append(f"{f.f_code.co_filename.rsplit('/', 1)[-1]}:{f.f_code.co_name}:{f.f_lineno}")
            f = f.f_back
        raise EpisodeStuck(where[0] if where else "?")

    old = signal.signal(signal.SIGALRM, on_alarm)
    signal.setitimer(signal.ITIMER_REAL, wall)
    try:
        vloop.run(go)
    except EpisodeStuck as err:
        where = str(err)
        if "_check_buffer_for_cmd" in where:
            ctx.violate(f"{pid}|{what}|event-loop-blocked-on-sender-lock", "the event-loop thread blocked for ever on the sender's own lock (left held by an internal assertion): every caller hangs", {"blocked_at": where})
        else:
            ctx.inconclusive_because(f"{what} episode stopped by the wall-clock alarm at {where}")
    except vloop.Starved as err:
        ctx.inconclusive_because(f"{what} episode starved the virtual clock: {err}")
    finally:
        signal.setitimer(signal.ITIMER_REAL, 0)
        signal.signal(signal.SIGALRM, old)


def run_integration(ctx, pid: str) -> None:
    for k in range(12 if ctx.quick else 300):
        trial = ctx.shard + k * ctx.nshards
        harness.reset_transport_globals()

        async def go(loop, trial=trial):
            with clocks_patched(perf_counter=True):
                await episode(loop, ctx, pid, trial)

        _run_watched(ctx, pid, go, "integration")
    for k in range(6 if ctx.quick else 150):
        trial = ctx.shard + k * ctx.nshards
        harness.reset_transport_globals()

        async def gom(loop, trial=trial):
            with clocks_patched(perf_counter=True):
                await episode_mqtt(loop, ctx, pid, trial)

        _run_watched(ctx, pid, gom, "integration-mqtt")
