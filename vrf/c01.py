"""C01 — reception is total (exception-class monitor + differential stream monitors).

(a) every line offered to Packet.from_file/from_port/from_dict + Message() either decodes
    or is rejected by PacketInvalid (ValueError for empty/undatable; also counted when the
    receive path itself would treat it as a clean reject);
(b) a junk line at any position of a stream never changes what is delivered for the other
    lines, and never ends a replay with an error — through the real FileTransport (dict and
    text file), PortTransport (FakeSerial) and MqttTransport (fake paho client);
(c) for the serial transport, every partition of one byte stream into reads delivers the
    same frames as one read.
"""

from __future__ import annotations

import asyncio
import io
import json
from datetime import datetime as dt, timedelta as td
from typing import Any

from . import gen, vloop
from .boundary import FakeMqttClient, FakeSerial, mqtt_patched, serial_patched
from .mon import innermost_lib_frame

PID = "C01"
LEVEL = "exploration"
SHARDS = {"quick": 16, "thorough": 16}
WALL_LIMIT = {"quick": 600, "thorough": 3600}
RULE = (
    "lines = log-corpus lines, 1..3-edit mutants of them, regex-sampled payloads of every "
    "known verb/code under the legal address shapes, gateway chatter; streams = 10-14 distinct "
    "valid frames with 1-3 junk lines at first/middle/last/adjacent positions, replayed through "
    "four real transports; partitions = every single cut, all-1-byte, random k-cuts, with empty "
    "reads. Distinct = (outcome class, code, verb, address shape, length class) for lines, "
    "(transport, junk kind, position class) for streams, (partition kind, cut-position class) "
    "for partitions; trivial (empty) lines are not counted as distinct."
)
ASSUMPTIONS = [
    "a ValueError on a non-empty datable line is the class the receive path itself rejects cleanly: counted, not judged",
    "MQTT bodies are well-formed {ts,msg} envelopes: the property is about frame lines, not envelopes",
    "junk lines contain no CR/LF of their own (a line is what lies between terminators)",
    "timestamps are excluded from the partition comparison (they differ by construction)",
]
REQUIRED = {
    "api.lines": 1000,
    "api.decoded": 100,
    "api.rejected": 100,
    "stream.dict": 5,
    "stream.file": 5,
    "stream.port": 5,
    "stream.mqtt": 5,
    "partition.cases": 50,
    "startup.cases": 5,
    "startup.signature_recognised": 5,
    "restore.cases": 5,
}

BASE_DTM = dt(2024, 3, 1, 12, 0, 0)
TX_FILES = {"packet.py", "frame.py", "message.py", "transport.py", "protocol.py", "protocol_fsm.py", "parsers.py", "address.py", "helpers.py", "opentherm.py", "logger.py", "ramses.py"}


# ---------------------------------------------------------------------------- (a)
def _shape(frame: str) -> str:
    p = frame.split()
    if len(p) < 8:
        return "short"
    a = p[-6:-3]
    return "".join("-" if x.startswith("--") else ("s" if i and x == a[0] else "d") for i, x in enumerate(a))


def api_case(ctx, dtm: str, line: str) -> str | None:
    """Offer one line to the decode API. Returns str(pkt) if it was decoded."""
    from ramses_tx import exceptions as exc
    from ramses_tx.message import Message
    from ramses_tx.packet import Packet

    ctx.ev()
    ctx.count("api.lines")
    out: str | None = None
    outcome = "?"
    for how in ("file", "port", "dict"):
        try:
            if how == "file":
                pkt = Packet.from_file(dtm, line)
            elif how == "port":
                pkt = Packet.from_port(dt.fromisoformat(dtm), line)
            else:
                pkt = Packet.from_dict(dtm, line)
        except exc.PacketInvalid:
            outcome = "pkt-invalid"
            continue
        except ValueError as err:
            outcome = "value-error"
            # the value error is for 'an empty or undatable line': a line that holds no frame (blank, only a
            # comment / an error annotation) is empty; anything else must go through the invalid-packet error
            core = line.partition("#")[0].partition("*")[0].partition("<")[0].strip()
            datable = True
            try:
                dt.fromisoformat(dtm)
            except ValueError:
                datable = False
            if core and datable:
                ctx.violate(
                    f"C01|api.Packet|ValueError|{innermost_lib_frame(err)}",
                    f"a ValueError (not the invalid-packet error) escapes Packet.from_{how}() for a line that is neither empty nor undatable",
                    {"dtm": dtm, "line": line, "via": how, "error": repr(err)[:200]},
                )
                outcome = "escape"
            else:
                ctx.count("api.value_error_on_empty_or_undatable_line")
            continue
        except Exception as err:  # noqa: BLE001 - the monitor's whole point
            ctx.violate(
                f"C01|api.Packet|{type(err).__name__}|{innermost_lib_frame(err)}",
                f"{type(err).__name__} (not the invalid-packet error) escapes Packet.from_{how}()",
                {"dtm": dtm, "line": line, "via": how, "error": repr(err)[:200]},
            )
            outcome = "escape"
            continue
        try:
            Message(pkt)
            outcome = "decoded"
            out = str(pkt)
        except exc.PacketInvalid:
            outcome = "msg-invalid"
        except Exception as err:  # noqa: BLE001
            ctx.violate(
                f"C01|api.Message|{type(err).__name__}|{innermost_lib_frame(err)}",
                f"{type(err).__name__} (not the invalid-packet error) escapes Message(pkt)",
                {"dtm": dtm, "line": line, "error": repr(err)[:200]},
            )
            outcome = "escape"
    if outcome == "decoded":
        ctx.count("api.decoded")
    elif outcome != "escape":
        ctx.count("api.rejected")
    if line.strip():
        p = line.split()
        code = p[-3] if len(p) >= 8 else "-"
        verb = line[4:6] if len(line) > 6 else "-"
        ctx.seen(f"line|{outcome}|{code}|{verb}|{_shape(line)}|{min(len(line) // 24, 6)}")
    return out


def part_a(ctx) -> None:
    from ramses_tx.ramses import CODES_SCHEMA

    rng = ctx.rng
    lines = gen.corpus()
    mine = [x for i, x in enumerate(lines) if i % ctx.nshards == ctx.shard]
    for dtm, rest, _ in mine:
        api_case(ctx, dtm, rest)
    frames = gen.corpus_frames()
    n_mut = 1500 if ctx.quick else 80000
    for i in range(n_mut):
        dtm, frame = frames[rng.randrange(len(frames))]
        line = gen.mutate_frame(rng, frame, 1 + i % 3)
        api_case(ctx, dtm, line)
        if i < 3:
            ctx.sample({"kind": "mutant", "line": line})
    # regex-sampled payloads for every known code/verb, under every address shape
    sampler = gen.RegexSampler(rng)
    pairs = [(c, v) for c, d in CODES_SCHEMA.items() for v in gen.VERBS if v in d]
    pairs = [p for i, p in enumerate(pairs) if i % ctx.nshards == ctx.shard]
    reps = 6 if ctx.quick else 200
    for code, verb in pairs:
        for r in range(reps):
            payload = gen.sample_payload(rng, code, verb, sampler)
            if payload is None:
                ctx.count("api.regex_unsampled")
                continue
            shape = r % 4
            typ = rng.choice((1, 2, 3, 4, 7, 10, 12, 13, 18, 22, 23, 30, 32, 34, 37))
            addrs = gen.addr_set(rng, shape, src=gen.dev_id(rng, typ))
            frame = f"{gen.rssi(rng)} {verb} {gen.seqn(rng)} {addrs} {code} {len(payload) // 2:03d} {payload}"
            api_case(ctx, BASE_DTM.isoformat(timespec="microseconds"), frame)
            ctx.count("api.regex_sampled")
            if r == 0 and len(ctx.samples) < 6:
                ctx.sample({"kind": "regex", "line": frame})
    for junk in gen.CHATTER:
        api_case(ctx, BASE_DTM.isoformat(timespec="microseconds"), junk)
    for bad_dtm in ("", "2024-13-45T99:99:99.000000", "not-a-date", "2024-03-01T12:00:00.12345"):
        try:
            api_case(ctx, bad_dtm, frames[0][1])
        except ValueError:  # dt.fromisoformat in the *harness* for the port variant
            ctx.count("api.undatable")


# ---------------------------------------------------------------------------- (b), (c)
def _junk(rng, frames) -> tuple[str, str]:
    kind = rng.choice(("mutant1", "mutant3", "chatter", "badlen", "assert-array", "nonascii", "blank", "truncated"))
    if kind == "mutant1":
        return kind, gen.mutate_frame(rng, frames[rng.randrange(len(frames))][1], 1)
    if kind == "mutant3":
        return kind, gen.mutate_frame(rng, frames[rng.randrange(len(frames))][1], 3)
    if kind == "chatter":
        return kind, rng.choice(gen.CHATTER)
    if kind == "badlen":
        f = frames[rng.randrange(len(frames))][1]
        return kind, f[:46] + f"{rng.randint(0, 99):03d}" + f[49:]
    if kind == "assert-array":  # structurally fine, semantically odd array-capable codes
        code = rng.choice(("2309", "30C9", "000A", "0009", "22C9", "3150", "2249"))
        n = {"2309": 3, "30C9": 3, "000A": 6, "0009": 3, "22C9": 6, "3150": 2, "2249": 7}[code]
        k = rng.randint(2, 4)
        payload = "".join(f"{i:02X}" + "00" * (n - 1) for i in range(k))
        a, b = gen.dev_id(rng, rng.choice((4, 13, 34, 1, 2))), gen.dev_id(rng, rng.choice((1, 2, 18)))
        return kind, f"045  I --- {a} --:------ {b} {code} {len(payload) // 2:03d} {payload}"
    if kind == "nonascii":
        return kind, "045  I --- 01:145038 \xe9\xff:------ 01:145038 1F09 003 FF073F"
    if kind == "blank":
        return kind, rng.choice(("", " ", "   "))
    f = frames[rng.randrange(len(frames))][1]
    return kind, f[: rng.randrange(4, len(f))]


_BY_CODE: dict[str, list[str]] = {}


def _by_code(frames) -> dict[str, list[str]]:
    if not _BY_CODE:
        for _, f in frames:
            _BY_CODE.setdefault(f[41:45], []).append(f)
    return {k: list(v) for k, v in _BY_CODE.items()}


def _clean(line: str) -> str:
    return line.replace("\r", "").replace("\n", "")


def _build_stream(ctx, frames, solo_ok) -> tuple[list[str], list[str], str, str]:
    """(valid lines, stream with junk, junk kind, position class)."""
    rng = ctx.rng
    n = rng.randint(10, 14)
    valid: list[str] = []
    seen: set[str] = set()
    cluster: list[str] = []
    if rng.random() < 0.35:
        # a cluster of one code heard from several devices (as on a real air: several controllers' 1F09s,
        # many TRVs' 3150s ...); the junk is then a near-valid relative of one of them (below)
        by_code = _by_code(frames)
        code = rng.choice(("1F09", "1F09", "30C9", "3150", "2309", "000A", "10E0", "1060", "3B00", "0008"))
        pool = by_code.get(code, [])
        srcs: set[str] = set()
        rng.shuffle(pool)
        for f in pool:
            if len(cluster) >= rng.choice((2, 3, 5)):
                break
            if f[4:] in seen or not solo_ok(f):
                continue
            if f[11:20] in srcs and rng.random() < 0.7:
                continue
            srcs.add(f[11:20])
            seen.add(f[4:])
            cluster.append(f)
        valid += cluster
    while len(valid) < n:
        _, f = frames[rng.randrange(len(frames))]
        if f[4:] in seen or not solo_ok(f):
            continue
        seen.add(f[4:])
        valid.append(f)
    if cluster:
        rng.shuffle(valid)
    def fresh_junk() -> tuple[str, str]:
        # a junk line whose frame part *is* one of the stream's valid frames (e.g. only an annotation was
        # appended) is just a repeat of that frame: it would be delivered twice, which says nothing
        for _ in range(50):
            k, j = _junk(rng, frames)
            j = _clean(j)
            core = j.split("#")[0].split("*")[0].split("<")[0].strip()
            if core[4:] not in seen and core not in seen:
                return k, j
        return "chatter", "# evofw3 0.7.1"

    kind, junk = fresh_junk()
    if cluster and rng.random() < 0.8:
        # a near-valid relative of a cluster line: payload cut (or stretched) with the length field kept
        # consistent, so that it is a well-formed frame whose *content* the decoder must refuse
        f = rng.choice(cluster)
        payload = f[50:]
        k = rng.choice((1, 1, 2, max(1, len(payload) // 2 - 1), len(payload) // 2 + 1))
        new_payload = (payload + "00" * 8)[: 2 * k]
        cand = f"{f[:46]}{k:03d} {new_payload}"
        if cand[4:] not in seen and not solo_ok(cand):
            kind, junk = "relative", cand
    pos_class = rng.choice(("first", "middle", "last", "adjacent"))
    stream = list(valid)
    if pos_class == "first":
        stream.insert(0, junk)
    elif pos_class == "last":
        stream.append(junk)
    elif pos_class == "middle":
        stream.insert(rng.randint(1, n - 1), junk)
    else:
        i = rng.randint(1, n - 1)
        k2, junk2 = fresh_junk()
        stream[i:i] = [junk, junk2]
        kind = f"{kind}+{k2}"
    return valid, stream, kind, pos_class


def _subseq_of_valid(delivered: list[str], valid_frames: set[str]) -> list[str]:
    return [d for d in delivered if d in valid_frames]


async def _replay_source(source_kwargs: dict[str, Any]) -> tuple[list[str], BaseException | None, str]:
    """Run one FileTransport replay; return (delivered frames, connection_lost exc, how ended)."""
    from ramses_tx.protocol import protocol_factory
    from ramses_tx.transport import SZ_READER_TASK, transport_factory

    got: list[str] = []
    protocol = protocol_factory(lambda m: got.append(str(m._pkt)), disable_sending=True)
    transport = await transport_factory(protocol, **source_kwargs)
    try:
        await asyncio.wait_for(transport.get_extra_info(SZ_READER_TASK), timeout=30)
    except Exception:
        pass
    lost: BaseException | None = None
    ended = "ok"
    try:
        await protocol.wait_for_connection_lost(timeout=5)
    except Exception as err:  # the error handed to connection_lost()
        from ramses_tx import exceptions as exc

        if isinstance(err, exc.TransportError) and "did not unbind" in str(err):
            ended = "no-connection-lost"
        else:
            lost, ended = err, "error"
    for _ in range(6):
        await asyncio.sleep(0)
    return got, lost, ended


class PortRig:
    """One real PortTransport (read-only) on a FakeSerial, reused for many byte streams."""

    def __init__(self) -> None:
        self.got: list[str] = []
        self.port = FakeSerial()

    async def start(self) -> None:
        from ramses_tx.protocol import protocol_factory
        from ramses_tx.transport import transport_factory

        self.protocol = protocol_factory(lambda m: self.got.append(str(m._pkt)), disable_sending=True)
        with serial_patched():
            self.transport = await transport_factory(
                self.protocol, port_name=self.port.name, port_config={}, disable_sending=True
            )

    async def feed(self, chunks: list[bytes]) -> list[str]:
        self.got.clear()
        for c in chunks:
            self.port.stage(c)
        for _ in range(len(chunks) * 2 + 50):
            await asyncio.sleep(0)
            if not self.port._chunks:
                break
        for _ in range(8):
            await asyncio.sleep(0)
        return list(self.got)

    @property
    def residue(self) -> bytes:
        return self.transport._recv_buffer


class MqttRig:
    def __init__(self) -> None:
        self.got: list[str] = []

    async def start(self) -> None:
        from ramses_tx.protocol import protocol_factory
        from ramses_tx.transport import transport_factory

        self.protocol = protocol_factory(lambda m: self.got.append(str(m._pkt)), disable_sending=False)
        with mqtt_patched():
            task = asyncio.ensure_future(
                transport_factory(self.protocol, port_name="mqtt://u:p@127.0.0.1:1883", port_config={})
            )
            await asyncio.sleep(0)
            await asyncio.sleep(0)
            self.client = FakeMqttClient.instances[-1]
            self.client.deliver("RAMSES/GATEWAY/18:017804", b"online")
            self.transport = await task

    async def feed(self, ctx, lines: list[str]) -> list[str]:
        self.got.clear()
        t = BASE_DTM
        for line in lines:
            t += td(milliseconds=37)
            body = json.dumps({"ts": t.isoformat(), "msg": line}).encode()
            try:
                self.client.deliver("RAMSES/GATEWAY/18:017804/rx", body)
            except Exception as err:  # would kill paho's network thread in the field
                ctx.violate(
                    f"C01|mqtt.on_message|{type(err).__name__}|{innermost_lib_frame(err)}",
                    f"{type(err).__name__} escapes the MQTT receive callback",
                    {"line": line, "error": repr(err)[:200]},
                )
        for _ in range(10):
            await asyncio.sleep(0)
        return list(self.got)


def _cuts(ctx, data: bytes, mode: str) -> list[bytes]:
    rng = ctx.rng
    if mode == "bytes1":
        return [data[i : i + 1] for i in range(len(data))]
    if mode.startswith("cut@"):
        i = int(mode[4:])
        return [data[:i], data[i:]]
    if mode == "kcuts":
        k = rng.randint(2, 12)
        pts = sorted({rng.randrange(1, len(data)) for _ in range(k)})
        out, prev = [], 0
        for p in pts:
            out.append(data[prev:p])
            prev = p
        out.append(data[prev:])
        if rng.random() < 0.5:  # interspersed empty reads
            for _ in range(rng.randint(1, 4)):
                out.insert(rng.randrange(len(out) + 1), b"")
        return out
    if mode == "crlf-split":  # cut between every CR and LF
        out, prev = [], 0
        i = data.find(b"\r\n")
        while i >= 0:
            out.append(data[prev : i + 1])
            prev = i + 1
            i = data.find(b"\r\n", i + 2)
        out.append(data[prev:])
        return out
    raise ValueError(mode)


async def part_bc(loop: vloop.VirtualLoop, ctx) -> None:
    from ramses_tx import exceptions as exc
    from ramses_tx.message import Message
    from ramses_tx.packet import Packet

    rng = ctx.rng
    frames = gen.corpus_frames()
    cache: dict[str, bool] = {}

    def solo_ok(f: str) -> bool:
        if f not in cache:
            try:
                Message(Packet.from_file(BASE_DTM.isoformat(timespec="microseconds"), f))
                cache[f] = True
            except (exc.PacketInvalid, ValueError, AssertionError):
                cache[f] = False
        return cache[f]

    port_rig = PortRig()
    await port_rig.start()
    mqtt_rig = MqttRig()
    await mqtt_rig.start()

    n_streams = 25 if ctx.quick else 600
    for s in range(n_streams):
        valid, stream, kind, pos = _build_stream(ctx, frames, solo_ok)
        valid_set = {v[4:] for v in valid}
        want = [v[4:] for v in valid]
        witness = {"stream": stream, "junk_kind": kind, "position": pos}
        if s == 0:
            ctx.sample({"kind": "stream", **witness})

        def judge(transport: str, got: list[str], lost: BaseException | None, ended: str) -> None:
            ctx.ev()
            ctx.count(f"stream.{transport}")
            ctx.seen(f"stream|{transport}|{kind}|{pos}")
            if lost is not None or ended == "error":
                ctx.violate(
                    f"C01|stream.{transport}|replay-aborted|{type(lost).__name__}|{innermost_lib_frame(lost) if lost else '?'}",
                    "a bad line ends the replay with an error (connection_lost(exc)); the lines after it are never delivered",
                    {**witness, "error": repr(lost)[:200], "delivered": len(got), "expected": len(want)},
                )
                return
            have = _subseq_of_valid(got, valid_set)
            if have != want:
                missing = [w for w in want if w not in have]
                ctx.violate(
                    f"C01|stream.{transport}|valid-lines-not-delivered",
                    "a junk line changed what was delivered for the valid lines of the same stream",
                    {**witness, "missing": missing[:4], "delivered": len(have), "expected": len(want)},
                )

        # dict source (saved-state form) -------------------------------------------
        t = BASE_DTM
        d: dict[str, str] = {}
        for line in stream:
            t += td(milliseconds=91)
            d[t.isoformat(timespec="microseconds")] = line
        got, lost, ended = await _replay_source({"packet_dict": d})
        judge("dict", got, lost, ended)

        # packet-log file source ---------------------------------------------------
        t = BASE_DTM
        text = ""
        for i, line in enumerate(stream):
            t += td(milliseconds=91)
            text += f"{t.isoformat(timespec='microseconds')} {line}\n"
            if i == 2:
                text += "\n# an annotated log may hold comments and blank lines\n"
        if rng.random() < 0.3:  # an undatable line inside the log
            text = text.replace("\n", "\n20xx-13-01T00:00:00.000000 " + valid[0] + "\n", 1)
        fh = io.TextIOWrapper(io.BytesIO(text.encode("utf-8", errors="replace")), encoding="utf-8", errors="replace")
        got, lost, ended = await _replay_source({"packet_log": fh})
        judge("file", got, lost, ended)

        # serial port --------------------------------------------------------------
        data = b"".join(line.encode("latin-1", errors="replace") + b"\r\n" for line in stream)
        got = await port_rig.feed([data])
        if port_rig.residue:
            got += await port_rig.feed([b"\r\n"])
        judge("port", got, None, "ok")
        baseline = list(got)

        # MQTT ---------------------------------------------------------------------
        got = await mqtt_rig.feed(ctx, stream)
        judge("mqtt", got, None, "ok")

        # (c) partitions of the same byte stream ---------------------------------------
        modes = ["bytes1", "crlf-split"] + ["kcuts"] * (4 if ctx.quick else 8)
        if s < (3 if ctx.quick else 40):
            step = 7 if ctx.quick else 1
            modes += [f"cut@{i}" for i in range(1, len(data), step)]
            modes += [f"cut@{i}" for i in range(1, len(data)) if data[i - 1 : i + 1] == b"\r\n"]
        for mode in modes:
            chunks = _cuts(ctx, data, mode)
            got = await port_rig.feed(chunks)
            if port_rig.residue:  # the stream ends with CRLF: nothing may be withheld
                ctx.violate(
                    f"C01|partition|bytes-withheld-after-complete-stream|{mode.split('@')[0]}",
                    "after all bytes of a CRLF-terminated stream were read, the serial transport still withholds some of them (frames not delivered for this read split)",
                    {"stream": stream, "mode": mode, "withheld": repr(port_rig.residue[:80]), "delivered": len(got), "one_read": len(baseline)},
                )
                await port_rig.feed([b"\r\n"])  # clean up for the next case (not part of the observation)
            ctx.ev()
            ctx.count("partition.cases")
            mkind = mode.split("@")[0]
            posc = ""
            if mkind == "cut":
                i = int(mode[4:])
                posc = "crlf" if data[i - 1 : i + 1] == b"\r\n" else ("in-frame" if i % 5 else "edge")
            ctx.seen(f"partition|{mkind}|{posc}|{len(chunks) // 40}")
            if got != baseline:
                ctx.violate(
                    f"C01|partition|frames-depend-on-read-split|{mkind}",
                    "the frames delivered by the serial transport depend on how the byte stream was split into reads",
                    {"stream": stream, "mode": mode, "one_read": len(baseline), "this_partition": len(got),
                     "first_difference": next((a for a, b in zip(got + [None], baseline + [None]) if a != b), None)},
                )
    ctx.info["loop_unhandled"] = loop.unhandled[:5]
    for u in loop.unhandled:
        if u.get("where"):
            ctx.violate(
                f"C01|loop-exception|{u['type']}|{u['where']}",
                "an exception from the receive path reached the event-loop exception handler",
                u,
            )
    port_rig.port.close()


# ---------------------------------------------------------------------------- (d) start-up of a serial gateway
async def part_d(loop: vloop.VirtualLoop, ctx) -> None:
    """A sending gateway polls the stick with a signature frame every 50 ms until the first echo.  A stick that is
    slow to wake (HGI80, a VM, ser2net) answers k >= 1 of them late and at once, in the same read as ordinary
    traffic, or once more after the connection has been made: the echoes are ordinary lines and nothing that
    follows them in the read may be lost."""
    from ramses_tx.protocol import protocol_factory
    from ramses_tx.transport import transport_factory

    rng = ctx.rng
    frames = gen.corpus_frames()
    n = 12 if ctx.quick else 200
    for case in range(n):
        k = rng.choice((1, 2, 2, 3, 5))
        layout = rng.choice(("one-read", "echo-per-read", "late-echo", "foreign-signature"))
        valid: list[str] = []
        while len(valid) < 4:
            _, f = frames[rng.randrange(len(frames))]
            try:
                from ramses_tx.message import Message
                from ramses_tx.packet import Packet

                Message(Packet.from_file(BASE_DTM.isoformat(timespec="microseconds"), f))
            except Exception:  # noqa: BLE001
                continue
            if f[4:] not in {v[4:] for v in valid} and " 7FFF " not in f:
                valid.append(f)
        got: list[str] = []
        sigs: list[str] = []
        port = FakeSerial()
        state = {"answered": False}

        def echo_of(sig: str) -> str:
            return "000 " + sig.replace("18:000730", "18:006402", 1)

        def on_write(_port, data: bytes, k=k, layout=layout, valid=valid, state=state, sigs=sigs, port=port) -> None:
            line = data.decode("latin-1").rstrip("\r\n")
            if " 7FFF " not in line:
                return
            sigs.append(line)
            if state["answered"] or len(sigs) < k:
                return
            state["answered"] = True
            echoes = [echo_of(x) for x in sigs]
            if layout == "foreign-signature":  # a neighbour's gateway starting up at the same moment
                echoes.insert(1 if len(echoes) > 1 else 0, "045 " + sigs[0].replace("18:000730", "18:111111", 1)[:-8] + "DEADBEEF")
            if layout == "echo-per-read":
                for e in echoes:
                    port.stage((e + "\r\n").encode())
                port.stage("".join(v + "\r\n" for v in valid).encode())
            else:
                port.stage("".join(x + "\r\n" for x in echoes + valid).encode())

        port.on_write = on_write
        protocol = protocol_factory(lambda m, got=got: got.append(str(m._pkt)), disable_sending=False)
        before = len(loop.unhandled)
        with serial_patched():
            try:
                transport = await asyncio.wait_for(transport_factory(protocol, port_name=port.name, port_config={}), timeout=10)
            except Exception as err:  # noqa: BLE001
                ctx.violate(f"C01|startup|transport-did-not-start|{type(err).__name__}|{innermost_lib_frame(err)}", "a serial gateway whose stick echoed its signature did not start", {"k": k, "layout": layout, "error": repr(err)[:200]})
                port.close()
                continue
        await asyncio.sleep(0.3)
        tail = valid[:2]
        if layout == "late-echo":  # the stick repeats its answer after the connection was made, ahead of more traffic
            port.stage("".join(x + "\r\n" for x in [echo_of(sigs[0]), *tail]).encode())
            await asyncio.sleep(0.3)
        ctx.ev()
        ctx.count("startup.cases")
        if len(sigs) <= k + 1:  # the poll stopped: the echo was recognised
            ctx.count("startup.signature_recognised")
        ctx.seen(f"startup|k={min(len(sigs), 9)}|{layout}")
        want = [v[4:] for v in valid] + ([v[4:] for v in tail] if layout == "late-echo" else [])
        have = [g for g in got if " 7FFF " not in g]
        witness = {"signatures_written": len(sigs), "answered_after": k, "layout": layout, "frames": valid, "delivered": have[:8]}
        if have != want:
            ctx.violate("C01|startup|valid-lines-not-delivered", "frames that follow the signature echoes of a starting serial gateway were not (all) delivered", witness)
        for u in loop.unhandled[before:]:
            if u.get("where"):
                ctx.violate(f"C01|loop-exception|{u['type']}|{u['where']}", "an exception from the receive path reached the event-loop exception handler", {**u, **witness})
        del loop.unhandled[before:]
        transport.close()
        await asyncio.sleep(0.1)
        port.close()


# ---------------------------------------------------------------------------- (e) a saved state handed to Gateway.start()
_ODD_STAMPS = (
    ("aware-utc", lambda t: t.isoformat(timespec="microseconds") + "+00:00", True),
    ("aware-offset", lambda t: t.isoformat(timespec="microseconds") + "-05:00", True),
    ("aware-z", lambda t: t.isoformat(timespec="microseconds") + "Z", True),
    ("seconds-only", lambda t: t.isoformat(timespec="seconds"), True),
    ("undatable", lambda t: t.isoformat(timespec="microseconds").replace(":0", ":0x", 1) if ":0" in t.isoformat() else "2024-13-01T00:00:00.000000", False),
    ("month-13", lambda t: "2024-13-01T00:00:00.000000", False),
    ("empty", lambda t: "", False),
    ("words", lambda t: "not a timestamp at all", False),
    ("year-0001-aware", lambda t: "0001-01-01T00:00:00.000000+14:00", None),
    ("year-9999-aware", lambda t: "9999-12-31T23:59:59.999999-14:00", None),
)


async def part_e(loop: vloop.VirtualLoop, ctx) -> None:
    """The saved-state dict as an application hands it over: Gateway.start(cached_packets=...).  Keys are the
    line's timestamp; one odd key (timezone-aware, undatable, empty, at the end of the calendar) or one junk
    line must not keep the other entries from being restored, and nothing but the library's own errors may
    come out of start()."""
    from . import harness
    from .air import Air

    rng = ctx.rng
    frames = gen.corpus_frames()
    cache: dict[str, bool] = {}

    def solo_ok(f: str) -> bool:
        from ramses_tx import exceptions as exc
        from ramses_tx.message import Message
        from ramses_tx.packet import Packet

        if f not in cache:
            try:
                Message(Packet.from_file(BASE_DTM.isoformat(timespec="microseconds"), f))
                cache[f] = True
            except (exc.PacketInvalid, ValueError, AssertionError):
                cache[f] = False
        return cache[f]

    n = 10 if ctx.quick else 150
    for case in range(n):
        valid, stream, kind, pos = _build_stream(ctx, frames, solo_ok)
        stamp_kind, stamp, datable = _ODD_STAMPS[(case + ctx.shard) % len(_ODD_STAMPS)]
        odd_at = rng.randrange(len(stream))
        t = BASE_DTM
        d: dict[str, str] = {}
        dropped: set[str] = set()
        for i, line in enumerate(stream):
            t += td(milliseconds=91)
            key = stamp(t) if i == odd_at else t.isoformat(timespec="microseconds")
            if key in d:
                continue
            if i == odd_at and datable is not True and line in valid:
                dropped.add(line[4:])  # a line that cannot be dated is refused; one at the end of the calendar may be
            d[key] = line
        want = [v[4:] for v in valid if v[4:] not in dropped]
        got: list[str] = []
        air = Air(loop)
        witness = {"packets": d, "odd_stamp": stamp_kind, "odd_at": odd_at, "junk_kind": kind}
        from ramses_rf import Gateway

        port = air.add_port("18:006402")
        before = len(loop.unhandled)
        gwy = None
        try:
            with serial_patched():
                gwy = Gateway(port.name, config={"disable_discovery": True, "enforce_known_list": False})
                handler = gwy._msg_handler
                gwy._msg_handler = lambda msg, h=handler, got=got: (got.append(str(msg._pkt)), h(msg))[1]  # type: ignore[method-assign]
                await asyncio.wait_for(gwy.start(cached_packets=d), timeout=30)
        except Exception as err:  # noqa: BLE001
            from ramses_tx import exceptions as exc

            ctx.violate(
                f"C01|restore|start-raised|{type(err).__name__}|{innermost_lib_frame(err)}",
                "Gateway.start(cached_packets=...) raised: one odd entry of a saved state kept all of it from being restored",
                {**witness, "error": repr(err)[:200]},
            )
            if gwy is not None:
                await harness.stop_gateway(gwy)
            air.close()
            continue
        await vloop.drain(loop)
        ctx.ev()
        ctx.count("restore.cases")
        ctx.seen(f"restore|{stamp_kind}|{kind}|{pos}")
        have = _subseq_of_valid(got, {v[4:] for v in valid})
        if datable is None:  # may or may not be kept, but nothing else may go with it
            odd_line = stream[odd_at][4:]
            have = [h for h in have if h != odd_line]
            want = [w for w in want if w != odd_line]
        if have != want:
            ctx.violate(
                f"C01|restore|valid-lines-not-restored|{stamp_kind if datable is not True else 'junk-line'}",
                "an odd entry of a saved state changed what was restored of the other entries",
                {**witness, "missing": [w for w in want if w not in have][:4], "restored": len(have), "expected": len(want)},
            )
        for u in loop.unhandled[before:]:  # (a full gateway: what its devices do with a delivered message is not the receive path)
            fn = (u.get("where") or ":").split(":")[1]
            if u.get("where") and u["where"].split(":")[0] in TX_FILES and "send" not in fn and "write" not in fn:
                # (a device that tries to *send* because of a restored packet while the engine is paused, and whose
                #  fire-and-forget task fails, is not the receive path either)
                ctx.violate(f"C01|loop-exception|{u['type']}|{u['where']}", "an exception from the receive path reached the event-loop exception handler", {**u, "odd_stamp": stamp_kind})
            else:
                ctx.count("restore.device_level_exceptions_not_judged")
        del loop.unhandled[before:]
        await harness.stop_gateway(gwy)
        air.close()


def run(ctx) -> None:
    from . import harness

    part_a(ctx)
    vloop.run(part_bc, ctx)
    vloop.run(part_d, ctx)
    harness.reset_transport_globals()
    vloop.run(part_e, ctx)
