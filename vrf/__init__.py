"""Runtime-monitoring machinery for ramses_rf (see /verif/DESIGN.md)."""
