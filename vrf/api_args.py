"""Argument tables for the 45 entries of ramses_tx.command.CODE_API_MAP (DESIGN §2.5, C03).

For each 'verb|code' key: a generator of calls. A call is (thunk -> Command, expect, label)
where `expect` maps decoded-payload keys to the value asked for (compared to wire
resolution), or to a callable(decoded_value) -> bool.  The tables deliberately include
arguments at and beyond the edge of each constructor's domain: the oracle is the same for
all of them (a returned command must have the advertised verb/code, decode with the library's
own decoder, and decode to what was asked for); a refusal (any exception) is always fine.

Domains are taken from the constructors' own range checks / docstrings (cited inline).
"""

from __future__ import annotations

from datetime import datetime as dt
from typing import Any

CTL = "01:145038"
IDX_IN = ["00", "01", "05", "0B", 0, 3, 11, "0F", 15]
IDX_OUT = [12 + 4, 0x50, 0xFA, 250, 255, 256, -1, "10", "FF", "7F", "ZZ", ""]


def near(a: Any, b: Any, tol: float) -> bool:
    return isinstance(a, (int, float)) and not isinstance(a, bool) and abs(a - b) <= tol + 1e-9


def idx_hex(i: Any) -> str:
    return f"{i:02X}" if isinstance(i, int) else str(i).upper()


def temps(rng, lo: float, hi: float, n: int) -> list[float]:
    k_lo, k_hi = round(lo * 100), round(hi * 100)
    pts = {k_lo, k_hi, k_lo + 1, k_hi - 1, (k_lo + k_hi) // 2}
    pts |= {rng.randint(k_lo, k_hi) for _ in range(n)}
    return [k / 100 for k in sorted(pts)]


def dtms(rng, n: int) -> list[dt]:
    out = [
        dt(2024, 2, 29, 23, 59), dt(2023, 12, 31, 23, 59), dt(2024, 1, 1, 0, 0), dt(2000, 1, 1, 0, 0),
        dt(2099, 12, 31, 12, 0), dt(2024, 3, 31, 1, 30), dt(2024, 10, 27, 1, 30),
    ]
    for _ in range(n):
        out.append(dt(rng.randint(2019, 2035), rng.randint(1, 12), rng.randint(1, 28), rng.randint(0, 23), rng.randint(0, 59)))
    return out


def calls(key: str, rng, C, n: int):  # noqa: C901
    """Yield (thunk, expect, label) for the constructor registered under `key`."""
    idxs = IDX_IN + IDX_OUT

    def zone_rq(fn, payload_idx_key="zone_idx"):
        for i in idxs:
            yield (lambda i=i: fn(CTL, i)), {payload_idx_key: ("idx", i)}, f"idx={i!r}"

    if key == "RQ|0004":
        yield from zone_rq(C.get_zone_name)
    elif key == " W|0004":
        names = ["Kitchen", "", "A", "Zone 1", "x" * 20, "y" * 21, "Über", "a\x00b", "Living Room Downst", "~!@#$%^&*()_+", " lead", "trail "]
        for i in idxs[:6] + IDX_OUT[:3]:
            for nm in names:
                exp = {"zone_idx": ("idx", i), "name": ("name", nm)}
                yield (lambda i=i, nm=nm: C.set_zone_name(CTL, i, nm)), exp, f"idx={i!r} name={nm!r}"
    elif key == "RQ|0006":
        yield (lambda: C.get_schedule_version(CTL)), {}, ""
    elif key == "RQ|0008":
        yield (lambda: C.get_relay_demand("13:049798")), {}, "no idx"
        for i in idxs:
            yield (lambda i=i: C.get_relay_demand(CTL, i)), {"zone_idx": ("idx", i)}, f"idx={i!r}"
    elif key == "RQ|000A":
        yield from zone_rq(C.get_zone_config)
    elif key == " W|000A":
        # domain: 5 <= min_temp <= 21, 21 <= max_temp <= 35 (command.py set_zone_config)
        for _ in range(n):
            i = rng.choice(idxs[:6])
            mn = rng.choice(temps(rng, 5, 21, 3) + [4.99, 21.01, -5, 400])
            mx = rng.choice(temps(rng, 21, 35, 3) + [20.99, 35.01, 327.68])
            lo, ow, mr = (rng.random() < 0.5 for _ in range(3))
            exp = {"zone_idx": ("idx", i), "min_temp": ("t", mn), "max_temp": ("t", mx), "local_override": lo, "openwindow_function": ow, "multiroom_mode": mr}
            yield (lambda i=i, mn=mn, mx=mx, lo=lo, ow=ow, mr=mr: C.set_zone_config(CTL, i, min_temp=mn, max_temp=mx, local_override=lo, openwindow_function=ow, multiroom_mode=mr)), exp, f"{i!r} {mn} {mx}"
    elif key == "RQ|0100":
        yield (lambda: C.get_system_language(CTL)), {}, ""
    elif key == "RQ|0404":
        for i in idxs[:6] + ["HW", "FA", 0xFA] + IDX_OUT[:3]:
            for fn, ft in ((1, 0), (1, None), (2, 3), (3, 3), (4, 3), (0, 0), (1, 3), (254, 254), (256, 0)):
                exp = {"frag_number": fn, "total_frags": (lambda v, ft=ft: v == (ft or None))}
                if i not in ("HW", "FA", 0xFA):
                    exp["zone_idx"] = ("idx", i)
                else:
                    exp["zone_idx"] = "HW"
                yield (lambda i=i, fn=fn, ft=ft: C.get_schedule_fragment(CTL, i, fn, ft)), exp, f"{i!r} {fn}/{ft}"
    elif key == " W|0404":
        for i in idxs[:4] + ["HW"]:
            for fn, fc in ((1, 1), (1, 3), (3, 3), (4, 3), (0, 1), (2, 254)):
                for frag in ("68816DCFCB09", "AB" * 41, "AB" * 42, "", "A", "zz"):
                    exp = {"frag_number": fn, "total_frags": fc, "fragment": frag, "zone_idx": "HW" if i == "HW" else ("idx", i)}
                    yield (lambda i=i, fn=fn, fc=fc, frag=frag: C.set_schedule_fragment(CTL, i, fn, fc, frag)), exp, f"{i!r} {fn}/{fc} len={len(frag)}"
    elif key == "RQ|0418":
        for li in [0, 1, 5, 0x3E, 0x3F, 63, 64, 255, 256, -1, "00", "3E", "FF", "100"]:
            yield (lambda li=li: C.get_system_log_entry(CTL, li)), {"log_idx": (lambda v, li=li: v == f"{(li if isinstance(li, int) else int(li, 16)):02X}")}, f"log_idx={li!r}"
    elif key == "RQ|1030":
        yield from zone_rq(C.get_mix_valve_params)
    elif key == " W|1030":
        # domain: 0..99, 0..50, 0..240, 0..99 (command.py set_mix_valve_params)
        for _ in range(n):
            i = rng.choice(idxs[:6])
            a = rng.choice((0, 55, 99, 100, 255, 256, -1))
            b = rng.choice((0, 15, 50, 51))
            c = rng.choice((0, 150, 240, 241))
            d = rng.choice((0, 15, 99, 100))
            exp = {"zone_idx": ("idx", i), "max_flow_setpoint": a, "min_flow_setpoint": b, "valve_run_time": c, "pump_run_time": d}
            yield (lambda i=i, a=a, b=b, c=c, d=d: C.set_mix_valve_params(CTL, i, max_flow_setpoint=a, min_flow_setpoint=b, valve_run_time=c, pump_run_time=d)), exp, f"{i!r} {a} {b} {c} {d}"
    elif key == "RQ|10A0":
        for di in (None, 0, 1, "00", "01", 2, 16, 255):
            kw = {} if di is None else {"dhw_idx": di}
            yield (lambda kw=kw: C.get_dhw_params(CTL, **kw)), {"dhw_idx": ("idx", di if di is not None else 0)}, f"dhw_idx={di!r}"
    elif key == " W|10A0":
        # domain: 30 <= setpoint <= 85, 0 <= overrun <= 10, 1 <= differential <= 10
        for _ in range(n):
            sp = rng.choice(temps(rng, 30, 85, 3) + [29.99, 85.01, None])
            ov = rng.choice((0, 5, 10, 11, -1, None))
            df = rng.choice(temps(rng, 1, 10, 2) + [0.99, 10.01, None])
            exp = {"setpoint": ("t", 50.0 if sp is None else sp), "overrun": 5 if ov is None else ov, "differential": ("t", 1.0 if df is None else df)}
            yield (lambda sp=sp, ov=ov, df=df: C.set_dhw_params(CTL, setpoint=sp, overrun=ov, differential=df)), exp, f"{sp} {ov} {df}"
    elif key == "RQ|1100":
        for dev, dom in ((CTL, None), ("13:049798", None), (CTL, "FC"), (CTL, "00"), (CTL, 0xFC), (CTL, "F9"), (CTL, "10"), (CTL, 300)):
            want = dom if dom is not None else ("00" if dev[:2] == "13" else "FC")
            exp = {"domain_id": ("idx", want)} if idx_hex(want) == "FC" else {}
            yield (lambda dev=dev, dom=dom: C.get_tpi_params(dev, domain_id=dom)), exp, f"{dev} {dom!r}"
    elif key == " W|1100":
        for _ in range(n):
            dom = rng.choice(("FC", "00", None, "F9", 0xFC))
            cr = rng.choice((3, 6, 9, 12, 1, 63, 64))
            on = rng.choice((1, 2, 5, 0.25, 63.75, 64))
            off = rng.choice((1, 3, 5, 0, 63.75, 64))
            pbw = rng.choice((None, 1.5, 2.0, 3.0, 0.0, 10.0))
            exp = {"cycle_rate": cr, "min_on_time": ("t", on), "min_off_time": ("t", off)}
            if pbw is not None:
                exp["proportional_band_width"] = ("t", pbw)
            yield (lambda dom=dom, cr=cr, on=on, off=off, pbw=pbw: C.set_tpi_params(CTL, dom, cycle_rate=cr, min_on_time=on, min_off_time=off, proportional_band_width=pbw)), exp, f"{dom!r} {cr} {on} {off} {pbw}"
    elif key == "RQ|1260":
        for di in (None, 0, 1, 2, 255):
            kw = {} if di is None else {"dhw_idx": di}
            yield (lambda kw=kw: C.get_dhw_temp(CTL, **kw)), {"dhw_idx": ("idx", di or 0)}, f"{di!r}"
    elif key == " I|1260":
        for dev in ("07:045960", "01:145038"):
            for t in temps(rng, 0, 99, n // 2) + [None, -1.0, 327.68, 400, -300.0]:
                yield (lambda dev=dev, t=t: C.put_dhw_temp(dev, t)), {"temperature": ("t", t)}, f"{dev} {t}"
    elif key == " I|1290":
        for t in temps(rng, -40, 60, n) + [None, 327.68, -327.69]:
            yield (lambda t=t: C.put_outdoor_temp("37:039266", t)), {"outdoor_temp": ("t", t)}, f"{t}"
    elif key == " I|1298":
        for v in [0, 1, 400, 790, 5000, 32766, 65536, -1, None]:
            yield (lambda v=v: C.put_co2_level("37:039266", v)), {"co2_level": v}, f"{v}"
    elif key == " I|12A0":
        for v in [k / 100 for k in range(0, 101)] + [0.005, 0.555, 1.01, -0.01, None]:  # (the whole 1 % grid: 0.29 * 100 is 28.999...)
            yield (lambda v=v: C.put_indoor_humidity("37:039266", v)), {"indoor_humidity": ("r", v, 0.005 + 1e-9)}, f"{v}"
    elif key == "RQ|12B0":
        yield from zone_rq(C.get_zone_window_state)
    elif key == "RQ|1F41":
        for di in (None, 0, 1, 2, 255):
            kw = {} if di is None else {"dhw_idx": di}
            yield (lambda kw=kw: C.get_dhw_mode(CTL, **kw)), {"dhw_idx": ("idx", di or 0)}, f"{di!r}"
    elif key == " W|1F41":
        modes = [None, 0, 1, 2, 3, 4, "00", "01", "02", "03", "04", "follow_schedule", "advanced_override", "permanent_override", "countdown_override", "temporary_override", 5, "05", "bogus"]
        fixed = [("temporary_override", True, None, None), ("countdown_override", True, None, 60), ("permanent_override", False, None, None), ("follow_schedule", None, None, None)]
        for m, act, until, dur in fixed:
            exp = _mode_expect(m, act, until, dur, "active")
            yield (lambda m=m, act=act, until=until, dur=dur: C.set_dhw_mode(CTL, mode=m, active=act, until=until, duration=dur)), exp, f"mode={m!r} active={act!r} until={until} dur={dur}"
        for m in (None, "follow_schedule", "advanced_override", "permanent_override", "countdown_override", "temporary_override"):
            for until in (None, dtms(rng, 1)[0]):
                for dur in (None, 0, 60):
                    exp = _mode_expect(m, True, until, dur, "active")
                    yield (lambda m=m, until=until, dur=dur: C.set_dhw_mode(CTL, mode=m, active=True, until=until, duration=dur)), exp, f"mode={m!r} active=True until={until} dur={dur}"
        for _ in range(n * 3):
            m = rng.choice(modes)
            act = rng.choice((None, True, False, 1, 0))
            until = rng.choice([None, None] + dtms(rng, 1))
            dur = rng.choice((None, None, 0, 1, 60, 1440, 0xFFFFFE, 0x1000000, -1))
            exp = _mode_expect(m, act, until, dur, "active")
            yield (lambda m=m, act=act, until=until, dur=dur: C.set_dhw_mode(CTL, mode=m, active=act, until=until, duration=dur)), exp, f"mode={m!r} active={act!r} until={until} dur={dur}"
    elif key in (" I|1FC9", " W|1FC9"):
        yield from _bind_calls(key, rng, C, n)
    elif key == " I|22F1":
        for fan_mode in (None, 0, 1, 2, 3, 4, 5, 6, 7, "00", "07", "away", "low", "medium", "high", "auto", "boost", 8, "FF", "bogus"):
            for kw in ({"src_id": "37:155617"}, {"seqn": 18}, {"seqn": "018"}, {}, {"src_id": "37:155617", "seqn": 5}, {"src_id": "37:155617", "idx": "63"}):
                exp = {"fan_mode": ("fan", fan_mode)} if "src_id" in kw and "seqn" not in kw and kw.get("idx", "00") == "00" else {}
                yield (lambda fm=fan_mode, kw=kw: C.set_fan_mode("32:155617", fm, **kw)), exp, f"{fan_mode!r} {kw}"
    elif key == " W|22F7":
        for pos in [None] + [k / 200 for k in (0, 1, 100, 199, 200)] + [0.3, 1.005, -0.1, 2.0]:
            if pos is None:
                exp = {"bypass_mode": "auto"}
            elif pos in (0.0, 1.0):
                exp = {"bypass_mode": "off" if pos == 0.0 else "on"}
            else:
                exp = {"bypass_position": ("r", pos, 0.005)}
            yield (lambda pos=pos: C.set_bypass_position("32:155617", bypass_position=pos, src_id="37:155617")), exp, f"position={pos}"
        for mode in ("auto", "off", "on", "bogus"):
            yield (lambda mode=mode: C.set_bypass_position("32:155617", bypass_mode=mode, src_id="37:155617")), {"bypass_mode": mode}, f"mode={mode}"
        yield (lambda: C.set_bypass_position("32:155617", bypass_mode="on", bypass_position=0.5)), {}, "both"
    elif key == "RQ|2309":
        yield from zone_rq(C.get_zone_setpoint)
    elif key == " W|2309":
        for i in idxs[:6] + IDX_OUT[:4]:
            for t in temps(rng, 5, 35, max(2, n // 8)) + [0.0, -0.01, 327.68, 400, None]:
                yield (lambda i=i, t=t: C.set_zone_setpoint(CTL, i, t)), {"zone_idx": ("idx", i), "setpoint": ("t", t)}, f"{i!r} {t}"
    elif key == "RQ|2349":
        yield from zone_rq(C.get_zone_mode)
    elif key == " W|2349":
        modes = [None, 0, 1, 2, 3, 4, "00", "01", "02", "03", "04", "follow_schedule", "advanced_override", "permanent_override", "countdown_override", "temporary_override", 5, "bogus"]
        for m in (None, "follow_schedule", "advanced_override", "permanent_override", "countdown_override", "temporary_override"):
            for until in (None, dtms(rng, 1)[0]):
                for dur in (None, 0, 60):
                    exp = _mode_expect(m, 19.5, until, dur, "setpoint")
                    exp["zone_idx"] = ("idx", "01")
                    yield (lambda m=m, until=until, dur=dur: C.set_zone_mode(CTL, "01", mode=m, setpoint=19.5, until=until, duration=dur)), exp, f"'01' mode={m!r} sp=19.5 until={until} dur={dur}"
        for _ in range(n * 4):
            i = rng.choice(idxs[:6])
            m = rng.choice(modes)
            sp = rng.choice([None] + temps(rng, 5, 35, 2) + [327.68])
            until = rng.choice([None, None] + dtms(rng, 1))
            dur = rng.choice((None, None, 0, 1, 60, 1440, 0xFFFFFE, 0x1000000, -1))
            exp = _mode_expect(m, sp, until, dur, "setpoint")
            exp["zone_idx"] = ("idx", i)
            yield (lambda i=i, m=m, sp=sp, until=until, dur=dur: C.set_zone_mode(CTL, i, mode=m, setpoint=sp, until=until, duration=dur)), exp, f"{i!r} mode={m!r} sp={sp} until={until} dur={dur}"
    elif key == " W|2411":
        from ramses_tx.ramses import _2411_PARAMS_SCHEMA

        params = list(_2411_PARAMS_SCHEMA)[:: max(1, len(_2411_PARAMS_SCHEMA) // 8)] + ["ZZ", "00"]
        for p in params:
            for v in (0, 1, 50, 255, 0xFFFFFFFF, 0x100000000, -1):
                yield (lambda p=p, v=v: C.set_fan_param("32:155617", p, v, src_id="37:155617")), {"parameter": p}, f"{p} {v}"
    elif key == "RQ|2E04":
        yield (lambda: C.get_system_mode(CTL)), {}, ""
    elif key == " W|2E04":
        modes = [None, 0, 1, 2, 3, 4, 5, 6, 7, "00", "07", "auto", "heat_off", "eco_boost", "away", "day_off", "day_off_eco", "auto_with_reset", "custom", 8, "08", "bogus"]
        for m in modes:
            for until in [None] + dtms(rng, 1)[:3]:
                exp = {"system_mode": ("sysmode", m), "until": (lambda v, u=until: v == (u.isoformat(timespec="seconds") if u else None))}
                yield (lambda m=m, until=until: C.set_system_mode(CTL, m, until=until)), exp, f"{m!r} until={until}"
    elif key == " I|2E10":
        for v in (True, False, None):
            yield (lambda v=v: C.put_presence_detected("37:039266", v)), {"presence_detected": v}, f"{v}"
    elif key == "RQ|30C9":
        yield from zone_rq(C.get_zone_temp)
    elif key == " I|30C9":
        for dev in ("34:021943", "03:123456", "04:123456", "12:123456", "22:123456", "00:123456", "01:145038", "13:111111"):
            for t in temps(rng, -20, 60, max(2, n // 6)) + [None, 327.68, -300.0]:
                yield (lambda dev=dev, t=t: C.put_sensor_temp(dev, t)), {"temperature": ("t", t)}, f"{dev} {t}"
    elif key == "RQ|313F":
        yield (lambda: C.get_system_time(CTL)), {}, ""
    elif key == " W|313F":
        for d in dtms(rng, n):
            for dst in (False, True):
                d2 = d.replace(second=rng.randint(0, 59))
                exp = {"datetime": d2.isoformat(timespec="seconds"), "is_dst": (lambda v, dst=dst: bool(v) == dst)}
                yield (lambda d2=d2, dst=dst: C.set_system_time(CTL, d2, is_dst=dst)), exp, f"{d2} dst={dst}"
                txt = d2.isoformat(timespec="seconds")  # the documented alternative form of the argument
                yield (lambda txt=txt, dst=dst: C.set_system_time(CTL, txt, is_dst=dst)), exp, f"{txt!r} (str) dst={dst}"
    elif key == "RQ|3220":
        for m in list(range(256)) + ["00", "19", "FF", 256, -1]:
            yield (lambda m=m: C.get_opentherm_data("10:048122", m)), {"msg_id": (lambda v, m=m: v == (m if isinstance(m, int) else int(m, 16)))}, f"msg_id={m!r}"
    elif key == " I|3EF0":
        for dev in ("13:049798", "10:049798"):
            for v in [0.0, 1.0, 0, 1, 0.5, 0.005, 0.995, None, 1.5, -0.5]:
                yield (lambda dev=dev, v=v: C.put_actuator_state(dev, v)), {"modulation_level": ("r", v, 0.005)}, f"{dev} {v}"
    elif key == "RP|3EF1":
        for v in [0.0, 1.0, 0.5, None, 1.5]:
            for ac, cc in ((294, 300), (0, 0), (0x7FFE, None), (7199, 7199), (65536, 1), (-1, 1)):
                exp = {"modulation_level": ("r", v, 0.005), "actuator_countdown": ac, "cycle_countdown": cc}
                yield (lambda v=v, ac=ac, cc=cc: C.put_actuator_cycle("13:049798", "18:006402", v, ac, cycle_countdown=cc)), exp, f"{v} {ac} {cc}"
    elif key == " I|0002":
        for dev in ("17:000001", "01:145038"):
            for t in temps(rng, -40, 60, n // 2) + [None, 327.68]:
                yield (lambda dev=dev, t=t: C.put_weather_temp(dev, t)), {"temperature": ("t", t)}, f"{dev} {t}"
    else:
        raise KeyError(key)


ZON_MODES = {"00": "follow_schedule", "01": "advanced_override", "02": "permanent_override", "03": "countdown_override", "04": "temporary_override"}
SYS_MODES = {"00": "auto", "01": "heat_off", "02": "eco_boost", "03": "away", "04": "day_off", "05": "day_off_eco", "06": "auto_with_reset", "07": "custom"}
FAN_MODES = {"00": "away", "01": "low", "02": "medium", "03": "high", "04": "auto", "05": "auto_alt", "06": "boost", "07": "off"}


def _mode_name(m: Any, table: dict[str, str]) -> str | None:
    if isinstance(m, int):
        m = f"{m:02X}"
    if m in table:
        return table[m]
    if m in table.values():
        return m
    return None


def _mode_expect(m: Any, target: Any, until: Any, dur: Any, target_key: str) -> dict[str, Any]:
    """What was asked for, for set_zone_mode / set_dhw_mode (docstring of set_zone_mode)."""
    exp: dict[str, Any] = {}
    name = _mode_name(m, ZON_MODES)
    if m is None:  # inferred (documented in _normalise_mode): until -> temporary, duration -> countdown, else permanent
        name = "temporary_override" if until else "countdown_override" if dur else "permanent_override"
    if name is not None:
        # documented: temporary without until is sent as advanced_override
        if name == "temporary_override" and until is None:
            exp["mode"] = lambda v: v in ("temporary_override", "advanced_override")  # either reading of the docstring
        else:
            exp["mode"] = name
    else:
        exp["mode"] = (lambda v: False)  # an unknown mode must be refused
    if name != "follow_schedule" and target is not None:
        exp[target_key] = ("t", target) if target_key == "setpoint" else bool(target)
    if until is not None:
        exp["until"] = until.isoformat(timespec="seconds")
    if dur is not None:
        exp["duration"] = (lambda v, d=dur: v is not None and near(v, d * 60, 0) or near(v, d, 0))
    return exp


def _bind_calls(key: str, rng, C, n: int):
    codes_sets = [["30C9"], ["30C9", "2309"], ["1260"], ["22F1", "22F3"], ["31D9", "31DA"], [], None, "30C9", ["1FC9"], ["10E0", "30C9"], ["ZZZZ"]]
    if key == " I|1FC9":
        for codes in codes_sets:
            for dst in (None, "34:021943", "63:262142"):
                for oem in (None, "01", "67", "6C"):
                    exp = {"phase": "offer", "bindings": ("bind_offer", codes, "34:021943", oem)}
                    yield (lambda codes=codes, dst=dst, oem=oem: C.put_bind(" I", "34:021943", codes, dst, oem_code=oem)), exp, f"offer {codes} {dst} {oem}"
                    if oem is None:  # the keyword left out altogether (how the binding code calls it)
                        yield (lambda codes=codes, dst=dst: C.put_bind(" I", "34:021943", codes, dst)), exp, f"offer {codes} {dst} (no oem kw)"
            for idx in (None, "00", "01", "21"):
                exp = {"phase": "confirm", "bindings": ("bind_confirm", codes, "34:021943", idx)}
                yield (lambda codes=codes, idx=idx: C.put_bind(" I", "34:021943", codes, "01:145038", idx=idx)), exp, f"confirm {codes} idx={idx}"
    else:
        for codes in codes_sets:
            for idx in (None, "00", "01", "0B", "FC"):
                exp = {"phase": "accept", "bindings": ("bind_accept", codes, "01:145038", idx)}
                yield (lambda codes=codes, idx=idx: C.put_bind(" W", "01:145038", codes, "34:021943", idx=idx)), exp, f"accept {codes} idx={idx}"
            yield (lambda codes=codes: C.put_bind(" W", "01:145038", codes, None)), {"phase": "accept"}, f"accept no dst {codes}"
            yield (lambda codes=codes: C.put_bind(" W", "01:145038", codes, "01:145038")), {"phase": "accept"}, f"accept dst=src {codes}"
