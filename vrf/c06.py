"""C06 — request and reply correlate: echo/reply recognised, distinct contexts never are.

Acceptance-level monitor: the real PortProtocol/FSM on the virtual clock (vrf/qos.py rig) is
offered, after a send, only the candidate packet; "recognised" <=> send_cmd() returns it.

 positive echo  : wait_for_reply False, echo (gateway id substituted) delivered -> returned
 positive reply : wait_for_reply True, echo then the conforming reply          -> reply returned
 near-miss echo : a packet differing from the echo in exactly one of code / verb / addressed
                  device / context is delivered instead of the echo             -> must NOT be returned
 near-miss reply: echo, then a packet differing from the reply in one field     -> must NOT be returned

Command/reply pairs come from (1) real RQ->RP / W->I adjacency pairs in the log corpus,
(2) RQ/W frames sampled from the schema regexes with conforming replies whose context bytes are
pinned by an independent layout rule, (3) public constructors.
"""

from __future__ import annotations

import re
from typing import Any

from . import gen, qos

PID = "C06"
LEVEL = "exploration"
SHARDS = {"quick": 16, "thorough": 16}
WALL_LIMIT = {"quick": 600, "thorough": 3600}
RULE = (
    "pairs = (request/write frame, conforming reply) from corpus adjacency, schema-regex sampling "
    "with pinned context bytes, and public constructors, for gateway ids 18:000730 -> real id; per "
    "pair 2 positive and up to 8 near-miss acceptance episodes on the real FSM. Distinct = (source, "
    "code, verb, episode kind, near-miss field); every episode involves one real send, none is trivial."
)
ASSUMPTIONS = [
    "a reply addressed to another requester, and an echo whose *requester* differs, are recorded but not judged (the statement lists code, verb, responding device, context)",
    "context layout rule (independent of the library): payload[:2]; 0005/000C payload[:4]; 0404 payload[:4]+payload[10:12] (index, zone/DHW marker, fragment); 0418 payload[4:6]; 3220 payload[4:6]",
    "the 0418 null-entry reply (payload 000000B0...7FFFFF70...) is the documented answer for an empty log slot and counts as the proper reply",
]
REQUIRED = {"pairs.corpus": 10, "pairs.sampled": 20, "episodes.pos_echo": 50, "episodes.pos_reply": 30, "episodes.nm_echo": 100, "episodes.nm_reply": 60}

ARRAY_ELEN = {"0009": 3, "000A": 6, "2309": 3, "30C9": 3, "2249": 7, "22C9": 6, "3150": 2}
GWY = qos.GWY_ID
HGI = qos.HGI
NULL_0418 = "000000B0000000000000000000007FFFFF7000000000"


_IDX_PREFIXES = ("^0[0-9A-F]", "^(0[0-9A-F]", "^((0[0-9A-F]")
# codes whose leading byte is an established zone / domain / circuit index (committed list; the
# meaning of the leading byte of WIP / unknown codes such as 0001 is not known, so they are left out)
ZONE_CTX_CODES = {"0004", "0008", "000A", "1030", "1060", "12B0", "22C9", "2309", "2349", "30C9", "3150"}


def ctx_span(code: str, verb: str = "RQ") -> list[tuple[int, int]]:
    """Where a frame of this code carries its context (independent layout rule).

    A first-byte context exists iff the schema's own regex for that verb starts with a zone-index
    class; codes whose payload starts with a literal 00 / FF (2E04, 10E0, 22F1, 1FC9 ...) have none.
    """
    from ramses_tx.ramses import CODES_SCHEMA

    if code == "1FC9":
        return []  # the leading byte of a binding payload is data, the header carries no index
    if code in ("0005", "000C"):
        return [(0, 4)]
    if code == "0404":
        return [(0, 4), (10, 12)]  # index + zone(20)/DHW(23) marker, fragment number
    if code in ("0418", "3220"):
        return [(4, 6)]
    regex = CODES_SCHEMA.get(code, {}).get(verb, "")
    if code in ZONE_CTX_CODES and regex.startswith(_IDX_PREFIXES):
        return [(0, 2)]
    return []


def ctx_of(code: str, verb: str, payload: str) -> str:
    return "|".join(payload[a:b] for a, b in ctx_span(code, verb) if len(payload) >= b)


def corpus_pairs() -> list[tuple[str, str, str]]:
    """(cmd frame with placeholder id, reply frame to the real gateway id, tag) from real logs."""
    out = []
    seen = set()
    lines = [f for _, f in gen.corpus_frames()]
    for i, f in enumerate(lines[:-1]):
        body = f[4:]
        verb = body[:2]
        if verb not in ("RQ", " W") or body[7:9] != "18":
            continue
        p = body.split(" ")
        src, dst, code = p[-6], p[-5], p[-3]
        if dst[:2] == "--":
            continue
        want_verb = "RP" if verb == "RQ" else " I"
        for nxt in lines[i + 1 : i + 4]:
            nb = nxt[4:]
            q = nb.split(" ")
            if nb[:2] == want_verb and q[-3] == code and q[-6] == dst and q[-5] == src:
                same_ctx = all(
                    len(p[-1]) >= b and len(q[-1]) >= b and p[-1][a:b] == q[-1][a:b] for a, b in ctx_span(code, verb)
                )
                if not same_ctx and not (code == "0418" and q[-1] == NULL_0418):
                    continue  # an answer to somebody else's (or an earlier) request
                cmd = body[:7] + HGI + body[16:]
                reply = nb.replace(src, GWY)
                key = (cmd, reply)
                if key not in seen:
                    seen.add(key)
                    out.append((cmd, reply, "corpus"))
                break
    return out


def sampled_pairs(ctx, n: int) -> list[tuple[str, str, str]]:
    from ramses_tx import exceptions as exc
    from ramses_tx.command import Command
    from ramses_tx.message import Message
    from ramses_tx.packet import Packet
    from ramses_tx.ramses import CODES_SCHEMA

    rng = ctx.rng
    sampler = gen.RegexSampler(rng)
    codes = [c for c, d in CODES_SCHEMA.items() if ("RQ" in d and "RP" in d) or (" W" in d and " I" in d)]
    out: list[tuple[str, str, str]] = []
    tries = 0
    while len(out) < n and tries < n * 30:
        tries += 1
        code = rng.choice(codes)
        d = CODES_SCHEMA[code]
        verb = rng.choice([v for v, r in (("RQ", "RP"), (" W", " I")) if v in d and r in d])
        rverb = "RP" if verb == "RQ" else " I"
        payload = gen.sample_payload(rng, code, verb, sampler)
        rpayload = gen.sample_payload(rng, code, rverb, sampler)
        if not payload or not rpayload:
            continue
        if code in ARRAY_ELEN and len(rpayload) // 2 != ARRAY_ELEN[code]:
            continue  # an answer about one zone is a single element, not an array
        # pin the context bytes of the reply to those of the request (independent layout rule)
        rp = list(rpayload)
        ok = True
        for a, b in sorted(set(ctx_span(code, verb)) | {(0, 2)}):  # a device mirrors the leading byte too
            if len(payload) < b or len(rpayload) < b:
                ok = False
                break
            rp[a:b] = payload[a:b]
        if not ok:
            continue
        rpayload = "".join(rp)
        if not re.match(d[rverb], rpayload):
            continue
        dev = gen.dev_id(rng, rng.choice((1, 1, 1, 2, 10, 13, 7, 30, 32, 23)))
        cmd = f"{verb} --- {HGI} {dev} --:------ {code} {len(payload) // 2:03d} {payload}"
        reply = f"{rverb} --- {dev} {GWY} --:------ {code} {len(rpayload) // 2:03d} {rpayload}"
        try:
            c = Command(cmd)
            _ = c.tx_header, c.rx_header
            Message(Packet.from_port(qos.vloop.EPOCH, f"000 {reply}"))
            Message(Packet.from_port(qos.vloop.EPOCH, f"000 {cmd}"))
        except (exc.PacketInvalid, exc.CommandInvalid, ValueError, AssertionError, NotImplementedError):
            ctx.count("pairs.sample_rejected")
            continue
        out.append((cmd, reply, "sampled"))
    return out


def constructor_pairs() -> list[tuple[str, str | None, str]]:
    """A few public-constructor outputs (requests) with hand-built conforming replies."""
    from ramses_tx.command import Command

    ctl = "01:145038"
    out = []
    for z in ("00", "05", "0B"):
        out.append((str(Command.get_zone_temp(ctl, z)), f"RP --- {ctl} {GWY} --:------ 30C9 003 {z}07D0", "ctor"))
        out.append((str(Command.get_zone_mode(ctl, z)), f"RP --- {ctl} {GWY} --:------ 2349 007 {z}07D000FFFFFF", "ctor"))
        out.append((str(Command.get_zone_config(ctl, z)), f"RP --- {ctl} {GWY} --:------ 000A 006 {z}1001F40DAC", "ctor"))
        out.append((str(Command.get_zone_name(ctl, z)), f"RP --- {ctl} {GWY} --:------ 0004 022 {z}00" + "41" * 20, "ctor"))
        out.append((str(Command.set_zone_setpoint(ctl, z, 20.0)), f" I --- {ctl} {GWY} --:------ 2309 003 {z}07D0", "ctor"))
    for i in (0, 1, 0x3F):
        out.append((str(Command.get_system_log_entry(ctl, i)), f"RP --- {ctl} {GWY} --:------ 0418 022 0040{i:02X}B0040004000000CB955F71FFFFFF70001283B3", "ctor"))
        if i:
            out.append((str(Command.get_system_log_entry(ctl, i)), f"RP --- {ctl} {GWY} --:------ 0418 022 {NULL_0418}", "ctor-null"))
    for m in (0x00, 0x05, 0x19, 0x73):
        out.append((str(Command.get_opentherm_data("10:048122", m)), f"RP --- 10:048122 {GWY} --:------ 3220 005 00C0{m:02X}0000", "ctor"))
    out.append((str(Command.get_schedule_version(ctl)), f"RP --- {ctl} {GWY} --:------ 0006 004 00050009", "ctor"))
    for frag in (1, 2, 3):
        c = Command.get_schedule_fragment(ctl, "01", frag, 3 if frag > 1 else 0)
        body = "68816DCFCB0980301045D1994C3E"
        out.append((str(c), f"RP --- {ctl} {GWY} --:------ 0404 {7 + len(body) // 2:03d} 012000{0x08:02X}{len(body) // 2:02X}{frag:02X}03{body}", "ctor"))
    for zone, marker in (("00", "20"), ("HW", "23")):  # zone 00 and the hot-water schedule: same index byte, other marker
        c = Command.get_schedule_fragment(ctl, zone, 1, 0)
        body = "68816DCFCB0980301045D1994C3E"
        out.append((str(c), f"RP --- {ctl} {GWY} --:------ 0404 {7 + len(body) // 2:03d} 00{marker}00{0x08:02X}{len(body) // 2:02X}0101{body}", "ctor"))
    out.append((str(Command.get_system_mode(ctl)), f"RP --- {ctl} {GWY} --:------ 2E04 008 00FFFFFFFFFFFF00", "ctor"))
    out.append((str(Command.get_dhw_temp(ctl)), f"RP --- {ctl} {GWY} --:------ 1260 003 000B6F", "ctor"))
    out.append((str(Command.get_tpi_params(ctl)), f"RP --- {ctl} {GWY} --:------ 1100 008 FC180400007FFF01", "ctor"))
    # ventilation: a bare request (one index byte) to a fan / CO2 sensor and a recorded reply of that code
    seen_hvac: set[str] = set()
    for _, f in gen.corpus_frames():
        p = f.split()
        if len(p) < 9 or p[1] != "RP" or p[-3] not in ("31DA", "31D9", "22F1", "22F3", "12A0", "1298", "2411", "313E", "4E02") or p[-3] in seen_hvac:
            continue
        src = p[3]
        if src[:2] not in ("32", "30", "37", "20", "29"):
            continue
        seen_hvac.add(p[-3])
        out.append((f"RQ --- {HGI} {src} --:------ {p[-3]} 001 {p[-1][:2]}", f"RP --- {src} {GWY} --:------ {p[-3]} {p[-2]} {p[-1]}", "ctor-hvac"))
    # the two recorded 1FC9 findings (known_findings.json): always re-observed
    out.append(("RQ --- 18:000730 13:049798 --:------ 1FC9 001 00", f"RP --- 13:049798 {GWY} --:------ 1FC9 006 003EF034C286", "ctor-1FC9"))
    out.append((" W --- 18:000730 37:154011 --:------ 1FC9 012 0031D949EE9C0031DA49EE9C", f" I --- 37:154011 {GWY} --:------ 1FC9 001 00", "ctor-1FC9"))
    return out


def near_misses(frame: str, role: str, code: str, rng, req_verb: str = "RQ", req_ctx: str = "") -> list[tuple[str, str]]:
    """(field, packet) differing from `frame` in exactly one of code / verb / device / context."""
    from ramses_tx.ramses import CODES_SCHEMA

    out: list[tuple[str, str]] = []
    p = frame.split(" ")
    payload = p[-1]
    # verb
    for nv in ("RQ", "RP", " I", " W"):
        if nv != frame[:2]:
            out.append(("verb", nv + frame[2:]))
            break
    # code (another known code; payload kept so that only the code differs)
    others = [c for c in CODES_SCHEMA if c != code]
    out.append(("code", " ".join(p[:-3] + [rng.choice(others)] + p[-2:])))
    # device: the responding device for a reply (src), the addressed device for an echo (dst)
    pos = -6 if role == "reply" else -5
    if p[pos][:2] != "--":
        typ = p[pos][:2]
        other = f"{typ}:{(int(p[pos][3:]) + 1) % 262143:06d}"
        q = list(p)
        q[pos] = other
        out.append(("device", " ".join(q)))
    # context: another value in the context bytes (incl. 00 and the extremes)
    my_verb = frame[:2]
    regex = CODES_SCHEMA.get(code, {}).get(my_verb, "")
    for a, b in ctx_span(code, req_verb):
        if len(payload) < b:
            continue
        cur = payload[a:b]
        cands = {"00", "01", "0B", "0F", f"{(int(cur[-2:], 16) + 1) % 256:02X}", "3F", "7F", "FA", "FC"}
        if code == "0404" and (a, b) == (0, 4):
            cands |= {"20", "23"}  # the zone / hot-water marker: zone 00 and the DHW schedule share index byte 00
        for alt in sorted(cands):
            new = cur[:-2] + alt
            newp = payload[:a] + new + payload[b:]
            if new == cur or not regex or not re.match(regex, newp):
                continue  # not something a conforming device could send
            if ctx_of(code, req_verb, newp) == req_ctx:
                continue  # same context as the request: that *is* a proper reply/echo
            out.append((f"context@{a}", " ".join(p[:-1] + [newp])))
    return out


def accepts(ctx, ep: dict[str, Any]) -> tuple[str | None, dict[str, Any]]:
    h = qos.run_episode(ep)
    ret = next((e for e in h["events"] if e["ev"] == "return" and e.get("caller") == 0), None)
    return (ret.get("result") if ret else None), h


def has_distinct_header_field(nm: str, base: str, field: str, code: str) -> bool:
    """Is `nm` really distinguishable by one of the statement's fields (and still a packet)?"""
    from ramses_tx import exceptions as exc
    from ramses_tx.packet import Packet

    from ramses_tx.message import Message

    try:
        pkt = Packet.from_port(qos.vloop.EPOCH, f"000 {nm}")
        if field.startswith("context"):
            Message(pkt)  # a context near-miss must be something a conforming device could send
    except (exc.PacketInvalid, ValueError, AssertionError):
        return False
    return True


def run(ctx) -> None:
    rng = ctx.rng
    pairs: list[tuple[str, str | None, str]] = []
    cp = corpus_pairs()
    pairs += [x for i, x in enumerate(cp) if i % ctx.nshards == ctx.shard]
    ctx.count("pairs.corpus", len([x for i, x in enumerate(cp) if i % ctx.nshards == ctx.shard]))
    sp = sampled_pairs(ctx, 12 if ctx.quick else 400)
    pairs += sp
    ctx.count("pairs.sampled", len(sp))
    if ctx.shard == 0:
        cps = constructor_pairs()
        pairs += cps
        ctx.count("pairs.constructor", len(cps))
    max_nm = 6 if ctx.quick else 40
    for cmd, reply, tag in pairs:
        code = cmd.split(" ")[-3]
        verb = cmd[:2]
        echo = cmd[:7] + GWY + cmd[16:] if cmd[7:16] == HGI else cmd
        base = {"frame": cmd, "reply": reply, "idx": 0, "max_retries": 0, "timeout": 3}
        sig = f"{tag}|{code}|{verb}"

        # positive echo -------------------------------------------------------------
        ep = {"disable_qos": False, "no_probe": True, "quiet": 0.1, "callers": [{**base, "wait_for_reply": False, "script": [{"echo": ["abs", 0.004], "reply": None}]}]}
        got, h = accepts(ctx, ep)
        ctx.ev()
        ctx.count("episodes.pos_echo")
        ctx.seen(sig + "|pos_echo")
        if got != echo:
            ctx.violate(
                f"C06|echo-not-recognised|{code}|{verb}",
                "the echo of a sent frame (gateway id substituted for the placeholder) was not recognised as its echo",
                {"cmd": cmd, "echo": echo, "send_cmd_returned": got, "returns": [e for e in h["events"] if e["ev"] == "return"]},
            )
            continue
        # positive reply ------------------------------------------------------------
        if reply:
            ep = {"disable_qos": False, "no_probe": True, "quiet": 0.1, "callers": [{**base, "wait_for_reply": True, "script": [{"echo": ["abs", 0.004], "reply": ["abs", 0.02]}]}]}
            got, h = accepts(ctx, ep)
            ctx.ev()
            ctx.count("episodes.pos_reply")
            ctx.seen(sig + "|pos_reply")
            if got != reply:
                ctx.violate(
                    f"C06|reply-not-recognised|{code}|{verb}",
                    "the proper reply from the addressed device carrying the same context was not recognised as the reply",
                    {"cmd": cmd, "reply": reply, "send_cmd_returned": got, "returns": [e for e in h["events"] if e["ev"] == "return"]},
                )
            # the same reply when it overtakes the echo (RF replies can be read before the stick's own echo),
            # and when the echo is lost altogether: still the proper reply, still to be recognised
            early = [("reply-overtakes-echo", [{"echo": ["abs", 0.004], "reply": ["before", 0]}]), ("echo-lost", [{"echo": None, "reply": ["abs", 0.02]}])]
            if code == "1FC9" or (code == "0418" and reply.split(" ")[-1] == NULL_0418):
                early = []  # 1FC9: recorded findings (never recognised); the 0418 null entry carries no context at all
            for how, script in early:
                ep = {"disable_qos": False, "no_probe": True, "quiet": 0.1, "callers": [{**base, "wait_for_reply": True, "max_retries": 0, "script": script}]}
                got, h = accepts(ctx, ep)
                ctx.ev()
                ctx.count("episodes.pos_reply_early")
                ctx.seen(sig + "|" + how)
                if got != reply:
                    ctx.violate(
                        f"C06|reply-not-recognised|{how}|{code}|{verb}",
                        "the proper reply was not recognised as the reply when it was read before the echo",
                        {"cmd": cmd, "reply": reply, "how": how, "send_cmd_returned": got, "returns": [e for e in h["events"] if e["ev"] == "return"]},
                    )
        if len(ctx.samples) < 5:
            ctx.sample({"cmd": cmd, "echo": echo, "reply": reply, "source": tag})
        # near-miss echo ------------------------------------------------------------
        req_ctx = ctx_of(code, verb, cmd.split(" ")[-1])
        nms = [("echo", f, x) for f, x in near_misses(echo, "echo", code, rng, verb, req_ctx)]
        if reply:
            nms += [("reply", f, x) for f, x in near_misses(reply, "reply", code, rng, verb, req_ctx)]
        rng.shuffle(nms)
        for role, field, nm in nms[:max_nm]:
            if nm in (echo, reply) or not has_distinct_header_field(nm, echo, field, code):
                continue
            if role == "reply" and reply and code == "0418" and nm.split(" ")[-1] == NULL_0418:
                continue  # the documented null-entry answer
            if role == "echo":
                script = [{"echo": None, "reply": None, "foreign": [(0.004, nm)]}]
                wfr = False
            else:
                script = [{"echo": ["abs", 0.004], "reply": None, "foreign": [(0.02, nm)]}]
                wfr = True
            ep = {"disable_qos": False, "no_probe": True, "quiet": 0.1, "callers": [{**base, "wait_for_reply": wfr, "script": script}]}
            got, h = accepts(ctx, ep)
            ctx.ev()
            ctx.count(f"episodes.nm_{role}")
            ctx.seen(f"{sig}|nm_{role}|{field.split('@')[0]}")
            if got == nm:
                ctx.violate(
                    f"C06|near-miss-{role}-accepted|{code}|{field.split('@')[0]}",
                    f"a packet differing from the {role} only in its {field.split('@')[0]} was taken for the {role}",
                    {"cmd": cmd, role: echo if role == "echo" else reply, "near_miss": nm, "field": field},
                )
