"""C20 — binding handshakes complete under duplicates, and always end and can be retried.

Two real port Gateways (a faked supplicant on one, a faked respondent on the other) share one
virtual air under the virtual clock.  For every pairing flow the API supports (RND->CTL, DHW->CTL,
CO2->FAN itho, REM->FAN nuaire, DIS->FAN orcon; with/without the 10E0 addenda) a fault script
decides, per handshake frame, how often the peer hears it (0 = lost, 1, 2 or 3 copies, in one read
or apart), how late (around the 3 s / 5 s / 5.1 s waits), and which third-party binding traffic
is mixed in.

 (1) when every phase frame reaches its peer within the waits, both ends return, with the same
     offer / accept / confirm (/ addenda) packets;
 (2) every attempt, on either side, ends within the sum of its stated waits with the packet
     tuple or a BindingError - no other exception class, nothing left for the loop's
     exception handler;
 (3) afterwards neither device is binding, and a fresh attempt on a clean air succeeds.
"""

from __future__ import annotations

import asyncio
import contextlib
import random
from typing import Any
from unittest.mock import patch

from . import air as airmod, harness, vloop
from .boundary import clocks_patched
from .mon import innermost_lib_frame

PID = "C20"
LEVEL = "fault_enumeration"
SHARDS = {"quick": 16, "thorough": 16}
WALL_LIMIT = {"quick": 900, "thorough": 5400}
RULE = (
    "attempts = 5 supported flows x per-phase delivery script (lost / 1 / 2 / 3 copies, gaps 0-0.1 s, delays from "
    "{0, 0.5, 2.9, 3.1, 4.9, 5.2, 6} s) x third-party offers/accepts/confirms x which side starts first; a systematic "
    "walk (one fault per phase) first, then seeded combinations; each attempt is followed by a clean retry. Distinct = "
    "(flow, script class per phase, third-party traffic, outcome of each side)."
)
ASSUMPTIONS = [
    "both gateways are evofw3-like sticks on one air (own echo after 4 ms, peer after 12 ms); a repeated frame is the same text delivered again",
    "the respondent class is made fakeable the way the repository's own tests do it (mix-in + BindContext)",
    "bounds: respondent 5.1 + 10 + 3 + 3 s, supplicant 10 + 5.1 + 10 + 10 s (the stated waits plus the binding QoS send timeout), +1 s slack",
    "'all frames eventually delivered' for clause (1) = no phase lost to the peer and no delay of 2.5 s or more",
]
REQUIRED = {"api.attempts": 40, "api.both_succeeded": 20, "afterwards.checked.at_once": 20, "attempts.cancelled_by_caller": 10, "solo.attempts": 12, "solo.succeeded": 6, "attempts": 40, "attempts.clean_expected": 10, "attempts.faulted": 20, "retries": 30, "both_succeeded": 10}

FLOWS: list[dict[str, Any]] = [
    {
        "name": "RND->CTL",
        "resp": {"01:220768": {"class": "CTL"}},
        "supp": {"34:259472": {"class": "RND", "faked": True}},
        "flow": (
            " I --- 34:259472 --:------ 34:259472 1FC9 024 0023098BF5900030C98BF5900000088BF590001FC98BF590",
            " W --- 01:220768 34:259472 --:------ 1FC9 006 012309075E60",
            " I --- 34:259472 01:220768 --:------ 1FC9 006 0123098BF590",
        ),
    },
    {
        "name": "RND->CTL(zone 0F)",  # a controller configured for 16 zones
        "resp": {"01:220768": {"class": "CTL"}},
        "supp": {"34:259472": {"class": "RND", "faked": True}},
        "flow": (
            " I --- 34:259472 --:------ 34:259472 1FC9 024 0023098BF5900030C98BF5900000088BF590001FC98BF590",
            " W --- 01:220768 34:259472 --:------ 1FC9 006 0F2309075E60",
            " I --- 34:259472 01:220768 --:------ 1FC9 006 0F23098BF590",
        ),
    },
    {
        "name": "RND->CTL(+10E0)",  # a heating device that also casts its device info (OEM code 00) to be ratified
        "resp": {"01:220768": {"class": "CTL"}},
        "supp": {"34:259472": {"class": "RND", "faked": True}},
        "flow": (
            " I --- 34:259472 --:------ 34:259472 1FC9 030 0023098BF5900030C98BF5900000088BF5900010E08BF590001FC98BF590",
            " W --- 01:220768 34:259472 --:------ 1FC9 006 022309075E60",
            " I --- 34:259472 01:220768 --:------ 1FC9 006 0223098BF590",
            " I --- 34:259472 63:262142 --:------ 10E0 038 000001C8380F0100F1FF070B07E6030507E15438375246323032350000000000000000000000",
        ),
    },
    {
        "name": "DHW->CTL",
        "resp": {"01:145038": {"class": "CTL"}},
        "supp": {"07:045960": {"class": "DHW", "faked": True}},
        "flow": (
            " I --- 07:045960 --:------ 07:045960 1FC9 012 0012601CB388001FC91CB388",
            " W --- 01:145038 07:045960 --:------ 1FC9 006 0010A006368E",
            " I --- 07:045960 01:145038 --:------ 1FC9 006 0012601CB388",
        ),
    },
    {
        "name": "CO2->FAN(itho)",
        "resp": {"18:126620": {"class": "FAN", "scheme": "itho"}},
        "supp": {"37:154011": {"class": "CO2", "scheme": "itho", "faked": True}},
        "flow": (
            " I --- 37:154011 --:------ 37:154011 1FC9 030 0031E096599B00129896599B002E1096599B0110E096599B001FC996599B",
            " W --- 18:126620 37:154011 --:------ 1FC9 012 0031D949EE9C0031DA49EE9C",
            " I --- 37:154011 18:126620 --:------ 1FC9 001 00",
            " I --- 37:154011 63:262142 --:------ 10E0 038 00000100280901" + "01" + "FEFFFFFFFFFF140107E5564D532D31324333390000000000000000000000",
        ),
    },
    {
        "name": "REM->FAN(nuaire)",
        "resp": {"30:098165": {"class": "FAN", "scheme": "nuaire"}},
        "supp": {"32:208628": {"class": "REM", "scheme": "nuaire", "faked": True}},
        "flow": (
            " I --- 32:208628 --:------ 32:208628 1FC9 018 0022F1832EF46C10E0832EF4001FC9832EF4",
            " W --- 30:098165 32:208628 --:------ 1FC9 006 2131DA797F75",
            " I --- 32:208628 30:098165 --:------ 1FC9 001 21",
            " I --- 32:208628 63:262142 --:------ 10E0 030 000001C85A0101" + "6C" + "FFFFFFFFFFFF010607E0564D4E2D32334C4D48323300",
        ),
    },
    {
        "name": "DIS->FAN(orcon)",
        "resp": {"32:155617": {"class": "FAN", "scheme": "orcon"}},
        "supp": {"37:171871": {"class": "DIS", "faked": True}},
        "flow": (
            " I --- 37:171871 --:------ 37:171871 1FC9 024 0022F1969F5F0022F3969F5F6710E0969F5F001FC9969F5F",
            " W --- 32:155617 37:171871 --:------ 1FC9 012 0031D9825FE10031DA825FE1",
            " I --- 37:171871 32:155617 --:------ 1FC9 001 00",
            " I --- 37:171871 63:262142 --:------ 10E0 038 000001C8940301" + "67" + "FFFFFFFFFFFF1B0807E4564D492D313557534A3533000000000000000000",
        ),
    },
]
PHASES = ("offer", "accept", "confirm", "addenda")
THIRD_PARTY = (
    " I --- 34:111111 --:------ 34:111111 1FC9 012 002309AAAAAA001FC9AAAAAA",  # someone else's offer
    " W --- 01:111111 34:111111 --:------ 1FC9 006 01230905B207",  # someone else's accept
    " I --- 34:111111 01:111111 --:------ 1FC9 006 012309AAAAAA",  # someone else's confirm
    " I --- 34:111111 63:262142 --:------ 10E0 038 000002FF0412FFFFFFFF0D0207E3564D4E2D31354C46303100000000000000000000",
)


def phase_of(frame: str) -> str | None:
    code = frame[37:41]  # frames on the air carry no RSSI prefix
    if code == "10E0":
        return "addenda"
    if code != "1FC9":
        return None
    if frame[:2] == " W":
        return "accept"
    return "offer" if frame[27:36] == frame[7:16] or frame[17:26] == "63:262142" else "confirm"


def ensure_fakeable(dev) -> None:
    from ramses_rf.binding_fsm import BindContext
    from ramses_rf.device import Fakeable

    if isinstance(dev, Fakeable):
        if not dev._bind_context:
            dev._make_fake()
        return

    class _Fakeable(dev.__class__, Fakeable):  # type: ignore[misc, name-defined]
        pass

    dev.__class__ = _Fakeable
    dev._bind_context = BindContext(dev)
    dev._make_fake()


WAITS: dict[str, tuple[float, float]] = {}  # role -> (virtual time its current wait began, the wait's length)


@contextlib.contextmanager
def waits_tapped():
    """Observe (from outside) when each end of a handshake starts waiting for the next frame, and for how long."""
    from ramses_rf import binding_fsm as bf

    orig = bf.BindStateBase._wait_for_fut_result

    async def tapped(self, timeout):  # type: ignore[no-untyped-def]
        loop = vloop.current()
        WAITS["respondent" if type(self).__name__.startswith("Resp") else "supplicant"] = (loop.time() if loop else 0.0, float(timeout))
        return await orig(self, timeout)

    with patch.object(bf.BindStateBase, "_wait_for_fut_result", tapped):
        yield


class Script:
    """Per-phase delivery to the *peer* (a stick always hears its own echo)."""

    def __init__(self) -> None:
        self.plan: dict[str, dict[str, Any]] = {}
        self.on = True
        self.applied: list[str] = []
        self.seen: dict[str, int] = {}
        self.last: dict[str, float] = {}
        self.after_offer: list[Any] = []  # callbacks(delay until our offer has been heard by the peer)

    def __call__(self, kind: str, frame: str, target: str) -> list[float]:
        base = 0.004 if kind == "echo" else 0.012
        ph = phase_of(frame)
        if kind != "echo" and ph == "offer" and target != "sim" and self.after_offer:
            pending, self.after_offer = self.after_offer, []
            out = self(kind, frame, target)  # how (and when) our offer reaches the peer
            for fn in pending:
                fn(max(out) if out else 0.0)
            return out
        if self.on and kind == "echo" and ph is not None and self.plan.get(ph, {}).get("kind") == "echo_lost":
            # the sender's own stick does not hear its frame back (collision on the air): the frame still reaches
            # the peer; the sender re-transmits and, with every echo lost, its send fails
            n = self.seen.get("echo" + ph + target, 0)
            self.seen["echo" + ph + target] = n + 1
            self.applied.append(f"{ph}:echo_lost")
            return [] if n < self.plan[ph].get("times", 99) else self.in_order(target, [base])
        if not self.on or kind == "echo" or ph is None or ph not in self.plan or target == "sim" or self.plan[ph]["kind"] == "echo_lost":
            return self.in_order(target, [base])
        p = self.plan[ph]
        n = self.seen.get(ph + target, 0)
        self.seen[ph + target] = n + 1
        self.applied.append(f"{ph}:{p['kind']}")
        if p["kind"] == "lost":
            return [] if n < p.get("times", 99) else self.in_order(target, [base])
        if p["kind"] == "copies":
            return self.in_order(target, [base + i * p["gap"] for i in range(p["n"])])
        if p["kind"] == "delay":
            return self.in_order(target, [base + p["secs"]])
        if p["kind"] == "at_deadline":
            # the frame reaches the peer in the very loop iteration in which the peer's wait for it runs out (or a
            # millisecond before / after): the reader's callback and the wait's timer are both due at that instant
            start, length = WAITS.get({"offer": "respondent", "accept": "supplicant", "confirm": "respondent", "addenda": "respondent"}[ph], (None, None))
            loop = vloop.current()
            if start is None or loop is None or n > 0:
                return self.in_order(target, [base])
            self.applied.append(f"{ph}:hit-deadline")
            loop.busy_cost = 0.0005  # from now on a loop iteration takes half a millisecond (see vloop)
            return self.in_order(target, [max(base, start + length + p["eps"] - loop.time())])
        return self.in_order(target, [base])

    def in_order(self, target: str, delays: list[float]) -> list[float]:
        """A receiver hears frames in the order they were sent: a held-up frame holds up the later ones."""
        loop = vloop.current()
        now = loop.time() if loop else 0.0
        out = []
        for d in delays:
            at = max(now + d, self.last.get(target, 0.0) + 0.001)
            self.last[target] = at
            out.append(at - now)
        return out


def plan_script(rng, script: Script, systematic: int | None, n_phases: int) -> dict[str, Any]:
    phases = PHASES[:n_phases]
    options: list[dict[str, Any]] = (
        [{"kind": "copies", "n": n, "gap": g} for n in (2, 3) for g in (0.0, 0.02, 0.1)]
        + [{"kind": "delay", "secs": s} for s in (0.5, 2.9, 3.1, 4.9, 5.2, 6.0)]
        + [{"kind": "at_deadline", "eps": -0.0005 * k} for k in range(8)]
        + [{"kind": "lost", "times": t} for t in (1, 99)]
        + [{"kind": "echo_lost", "times": t} for t in (1, 99)]
    )
    if systematic is not None:
        ph = phases[systematic % len(phases)]
        script.plan[ph] = dict(options[(systematic // len(phases)) % len(options)])
    else:
        for ph in phases:
            if rng.random() < 0.45:
                script.plan[ph] = dict(rng.choice(options))
    return {"script": {ph: {k: v for k, v in p.items()} for ph, p in script.plan.items()}}


def benign(script: Script) -> bool:
    """Clause (1) applies: nothing is lost to the peer and nothing arrives late."""
    return all(p["kind"] == "copies" or (p["kind"] == "delay" and p["secs"] < 2.5) or (p["kind"] == "echo_lost" and p["times"] == 1) for p in script.plan.values())


async def attempt(loop, ctx, flow: dict[str, Any], resp, supp, air, script: Script, rng, third_party: bool, stagger: float, cancel: dict[str, Any] | None = None) -> dict[str, Any]:
    """One handshake: both ends start; returns what each side observed."""
    from ramses_rf import exceptions as rexc
    from ramses_tx import Command

    f = flow["flow"]
    payload = f[1][46:]
    accept_codes = [payload[i : i + 4] for i in range(2, len(payload), 12)]
    idx = payload[:2]
    require_ratify = len(f) > 3
    payload = f[0][46:]
    offer_codes = [c for c in (payload[i : i + 4] for i in range(2, len(payload), 12)) if c != "1FC9"]
    confirm_code = f[2][48:52] or None
    ratify_cmd = Command(f[3]) if require_ratify else None

    out: dict[str, Any] = {}

    async def side(name: str, coro, bound: float) -> None:
        t0 = loop.time()
        try:
            inner = asyncio.ensure_future(coro)
            if cancel and cancel["side"] == name:  # the application gives up on the attempt (its own time-out, shutdown)
                loop.call_later(cancel["at"], inner.cancel)
            res = await asyncio.wait_for(inner, timeout=bound + 30)
            out[name] = {"outcome": "tuple", "pkts": [str(p) if p is not None else None for p in res], "took": loop.time() - t0}
        except asyncio.CancelledError:
            if not (cancel and cancel["side"] == name):
                raise
            out[name] = {"outcome": "cancelled-by-caller", "took": loop.time() - t0}
        except rexc.BindingError as err:
            out[name] = {"outcome": "binding-error", "error": type(err).__name__, "took": loop.time() - t0}
        except asyncio.TimeoutError:
            out[name] = {"outcome": "open", "took": loop.time() - t0}
        except Exception as err:  # noqa: BLE001
            out[name] = {"outcome": "other-exception", "error": type(err).__name__, "where": innermost_lib_frame(err), "text": str(err)[:120], "took": loop.time() - t0}
        out[name]["bound"] = bound

    r_task = asyncio.ensure_future(side("respondent", resp._wait_for_binding_request(accept_codes, idx=idx, require_ratify=require_ratify), 5.1 + 10 + 3 + 3 + 1))
    if stagger:
        await asyncio.sleep(stagger)
    s_task = asyncio.ensure_future(side("supplicant", supp._initiate_binding_process(offer_codes, confirm_code=confirm_code, ratify_cmd=ratify_cmd), 10 + 5.1 + 10 + 10 + 1))
    if third_party:
        for _ in range(rng.choice((1, 2, 4))):
            frame = rng.choice(THIRD_PARTY)
            if phase_of(frame) == "offer":
                # a respondent in pairing mode takes the first offer it hears - that is the protocol, not a
                # defect - so a neighbour's *offer* goes on the air only after ours has reached the peer
                extra = rng.choice((0.02, 0.1, 1.0, 3.0))
                script.after_offer.append(lambda heard_in, frame=frame, extra=extra: air.inject(frame, delay=heard_in + extra, faultable=False))
            else:
                air.inject(frame, delay=rng.choice((0.0, 0.005, 0.02, 0.1, 1.0, 3.0)), faultable=False)
        if rng.random() < 0.4:
            # a neighbour's device that mistakes our respondent for its own: its Confirm is addressed to our respondent
            # although it never made the offer our respondent accepted
            rid = list(flow["resp"])[0]
            stray = f" I --- 34:111111 {rid} --:------ 1FC9 006 {idx}2309AAAAAA"
            air.inject(stray, delay=rng.choice((0.03, 0.1, 0.2, 0.5)), faultable=False)
            script.applied.append("stray-confirm-to-our-respondent")
    await asyncio.wait([r_task, s_task])
    return out


async def episode(loop: vloop.VirtualLoop, ctx, trial: int) -> None:
    from ramses_rf import Gateway  # noqa: F401

    rng = random.Random(f"C20/{ctx.seed}/{trial}")
    flow = FLOWS[trial % len(FLOWS)]
    script = Script()
    script.on = False
    air = airmod.Air(loop, fault=script)
    cfg = {"disable_discovery": True, "disable_qos": False, "enforce_known_list": True}
    # the neighbours whose binding traffic is overheard are ordinary, admitted devices
    known = {**flow["resp"], **flow["supp"], "34:111111": {"class": "RND"}, "01:111111": {"class": "CTL"}}
    gwy_r = await harness.start_port_gateway(loop, air, "18:111111", config=dict(cfg), known_list={k: dict(v) for k, v in known.items()}, orphans_hvac=list(flow["resp"]))
    gwy_s = await harness.start_port_gateway(loop, air, "18:222222", config=dict(cfg), known_list={k: dict(v) for k, v in known.items()}, orphans_hvac=list(flow["supp"]))
    await asyncio.sleep(0.3)
    resp = gwy_r.device_by_id.get(list(flow["resp"])[0]) or gwy_r.get_device(list(flow["resp"])[0])
    supp = gwy_s.device_by_id.get(list(flow["supp"])[0]) or gwy_s.get_device(list(flow["supp"])[0])
    ensure_fakeable(resp)
    ensure_fakeable(supp)

    systematic = (trial // len(FLOWS)) if trial < 70 * len(FLOWS) and trial // len(FLOWS) < 56 else None
    meta: dict[str, Any] = {"seed": ctx.seed, "trial": trial, "flow": flow["name"]}
    meta.update(plan_script(rng, script, systematic if trial % 3 else None, len(flow["flow"])))
    third = rng.random() < 0.35
    stagger = rng.choice((0.0, 0.0, 0.05, 1.0, 4.0))
    meta.update({"third_party": third, "supplicant_starts_after_s": stagger})
    if systematic is None and not script.plan and rng.random() < 0.5:
        meta["script"] = {}
    script.on = True

    cancel = None
    if systematic is None and rng.random() < 0.2:
        cancel = {"side": rng.choice(("supplicant", "respondent")), "at": rng.choice((0.001, 0.05, 0.3, 0.6, 1.7, 2.9, 4.0))}
        meta["cancelled_by_caller"] = cancel
        ctx.count("attempts.cancelled_by_caller")
    n_unhandled = len(loop.unhandled)
    out = await attempt(loop, ctx, flow, resp, supp, air, script, rng, third, stagger, cancel)
    # both calls have ended: a new attempt may start - at once, or after every stated timer has run out
    # (not while frames of this attempt are still held up on the air: they would arrive in the middle of the next one)
    # (nor while a neighbour's frames scheduled during this attempt are still to come: its offer would reach a
    #  respondent that has just started to listen again - the pairing protocol at work, not a defect)
    settle = rng.choice((6.0, 6.0, 6.0, 0.0, 0.3, 2.0)) if systematic is None and not third and all(p["kind"] != "delay" for p in script.plan.values()) else 6.0
    meta["retry_after_s"] = settle
    await asyncio.sleep(settle)
    await vloop.drain(loop, 6)
    ctx.count("attempts")
    clean = benign(script) and stagger < 4.0 and cancel is None
    if "stray-confirm-to-our-respondent" in script.applied and script.plan.get("confirm", {}).get("kind") == "echo_lost":
        # with the echo of its own Confirm lost, the only packet the supplicant's sender can take for that echo is the
        # neighbour's Confirm (same header): echoes are matched by header (C06 / C07's stated level) - not judged here
        clean = False
    ctx.count("attempts.clean_expected" if clean else "attempts.faulted")

    def judge(out: dict[str, Any], tag: str, must_succeed: bool) -> None:
        for name, o in out.items():
            if o["outcome"] == "open" or o["took"] > o["bound"] + 1e-6:
                ctx.violate(f"C20|ends|{tag}|{name}-did-not-end-in-bound", "a binding attempt did not end within the sum of its stated waits", {"side": name, "observed": o, "episode": meta})
            elif o["outcome"] == "other-exception":
                ctx.violate(
                    f"C20|outcome|{tag}|{name}|{o['error']}|{o['where']}",
                    "a binding attempt ended with an exception that is not a binding error",
                    {"side": name, "observed": o, "episode": meta},
                )
        if must_succeed:
            r, s = out.get("respondent", {}), out.get("supplicant", {})
            if r.get("outcome") == "tuple" and s.get("outcome") == "tuple":
                ctx.count("both_succeeded")
                n = len(flow["flow"])
                if r["pkts"][:n] != s["pkts"][:n] or r["pkts"][:n] != list(flow["flow"]):
                    ctx.violate(
                        f"C20|handshake|{tag}|both-succeeded-with-different-packets",
                        "both ends report success but not with the same offer / accept / confirm (/ addenda) packets",
                        {"respondent": r["pkts"], "supplicant": s["pkts"], "expected": list(flow["flow"]), "episode": meta},
                    )
            elif all(o["outcome"] in ("tuple", "binding-error") for o in out.values()):
                ctx.violate(
                    f"C20|handshake|{tag}|failed-although-all-frames-delivered|resp={r.get('outcome')}|supp={s.get('outcome')}",
                    "every handshake frame reached its peer in time (repeats / third-party traffic only) but an end reported failure",
                    {"respondent": r, "supplicant": s, "episode": meta},
                )

    judge(out, "attempt", clean)
    for dev, name in ((resp, "respondent"), (supp, "supplicant")):
        ctx.count("afterwards.checked" + (".at_once" if settle < 6.0 else ""))
        if dev._bind_context.is_binding:
            ctx.violate(
                f"C20|afterwards|{name}-still-binding|after-{out.get(name, {}).get('outcome')}",
                "after a binding attempt had ended (and all its timers had run out) the device was still binding",
                {"state": repr(dev._bind_context.state), "observed": out.get(name), "episode": meta},
            )
    # clause (3): a fresh attempt on a clean air
    script.on = False
    ctx.count("retries")
    out2 = await attempt(loop, ctx, flow, resp, supp, air, script, rng, False, 0.0)
    await asyncio.sleep(1.0)
    first = "+".join(f"{k[:4]}={v['outcome']}" for k, v in sorted(out.items()))
    if not all(o["outcome"] == "tuple" for o in out2.values()):
        ctx.violate(
            f"C20|retry|fresh-attempt-failed|after-{first}|" + "+".join(f"{k[:4]}={v['outcome']}{':' + v['error'] if 'error' in v else ''}" for k, v in sorted(out2.items())),
            "on a clean air, a new binding attempt after a finished one did not succeed",
            {"first_attempt": out, "retry": out2, "episode": meta},
        )
    else:
        judge(out2, "retry", True)
    for u in loop.unhandled[n_unhandled:]:
        if "binding_fsm" in (u.get("where") or "") or u.get("type") == "InvalidStateError":
            ctx.violate(
                f"C20|unhandled|loop|{u['type']}|{u['where']}",
                "a binding callback raised inside the event loop (unhandled)",
                {"exception": u, "episode": meta},
            )
        else:
            ctx.info.setdefault("loop_unhandled_other", []).append(f"{u['type']}@{u['where']}")
    ctx.ev()
    ctx.seen(f"{flow['name']}|{'+'.join(f'{k}:{v['kind']}' for k, v in sorted(script.plan.items())) or 'clean'}|3p={int(third)}|{first}")
    if trial < 2:
        ctx.sample({"episode": meta, "attempt": out, "retry": {k: v["outcome"] for k, v in out2.items()}})
    await harness.stop_gateway(gwy_r)
    await harness.stop_gateway(gwy_s)
    air.close()


ORCON_REM = {
    "name": "REM->FAN(orcon, offer to 63:262142)",
    "resp": {"32:155617": {"class": "FAN", "scheme": "orcon"}},
    "supp": {"29:158183": {"class": "REM", "scheme": "orcon"}},
    "flow": (
        " I --- 29:158183 63:262142 --:------ 1FC9 024 0022F17669E70022F37669E76710E07669E7001FC97669E7",
        " W --- 32:155617 29:158183 --:------ 1FC9 012 0031D9825FE10031DA825FE1",
        " I --- 29:158183 32:155617 --:------ 1FC9 001 00",
        " I --- 29:158183 63:262142 --:------ 10E0 038 000001C827090167FFFFFFFFFFFF0D0207E3564D4E2D31354C46303100000000000000000000",
    ),
}


async def solo_episode(loop: vloop.VirtualLoop, ctx, trial: int) -> None:
    """One library end against a *real-device-like* peer scripted by the harness.

    Real RF devices send each handshake frame three times, 0.1 s or so apart; the peer's frames are the
    recorded ones (incl. the Orcon remote that addresses its offer to 63:262142).
    """
    from ramses_rf import exceptions as rexc
    from ramses_tx import Command

    rng = random.Random(f"C20solo/{ctx.seed}/{trial}")
    flows = FLOWS + [ORCON_REM]
    flow = flows[trial % len(flows)]
    role = "respondent" if flow is ORCON_REM or trial % 2 else "supplicant"
    f = flow["flow"]
    repeats, gap = rng.choice((1, 2, 3, 3)), rng.choice((0.0, 0.05, 0.1, 0.3))
    meta = {"seed": ctx.seed, "trial": trial, "solo": role, "flow": flow["name"], "peer_repeats": repeats, "gap_s": gap}
    air = airmod.Air(loop)
    cfg = {"disable_discovery": True, "disable_qos": False, "enforce_known_list": True}
    known = {k: dict(v) for k, v in {**flow["resp"], **flow["supp"]}.items()}
    mine = flow["resp"] if role == "respondent" else flow["supp"]
    if role == "supplicant":
        known[list(mine)[0]]["faked"] = True
    gwy = await harness.start_port_gateway(loop, air, "18:111111", config=dict(cfg), known_list=known, orphans_hvac=list(mine))
    await asyncio.sleep(0.3)
    dev = gwy.device_by_id.get(list(mine)[0]) or gwy.get_device(list(mine)[0])
    ensure_fakeable(dev)

    def cast(frame: str, at: float) -> None:
        for i in range(repeats):
            air.inject(frame, delay=at + i * gap, faultable=False)

    heard: set[str] = set()

    def peer(frame: str) -> None:  # what the scripted device does when it hears the library's frames
        ph = phase_of(frame)
        if role == "respondent" and ph == "accept" and frame[7:16] == list(mine)[0] and "accept" not in heard:
            heard.add("accept")
            cast(f[2], 0.05)
            if len(f) > 3:
                cast(f[3], 0.05 + repeats * gap + 0.05)
        if role == "supplicant" and ph == "offer" and frame[7:16] == list(mine)[0] and "offer" not in heard:
            heard.add("offer")
            cast(f[1], 0.05)

    air.add_listener(peer)
    payload = f[1][46:]
    accept_codes = [payload[i : i + 4] for i in range(2, len(payload), 12)]
    t0 = loop.time()
    out: dict[str, Any] = {}
    try:
        if role == "respondent":
            coro = dev._wait_for_binding_request(accept_codes, idx=payload[:2], require_ratify=len(f) > 3)
            task = asyncio.ensure_future(coro)
            await asyncio.sleep(rng.choice((0.1, 1.0)))
            cast(f[0], 0.0)
        else:
            p0 = f[0][46:]
            offer_codes = [c for c in (p0[i : i + 4] for i in range(2, len(p0), 12)) if c != "1FC9"]
            coro = dev._initiate_binding_process(offer_codes, confirm_code=f[2][48:52] or None, ratify_cmd=Command(f[3]) if len(f) > 3 else None)
            task = asyncio.ensure_future(coro)
        res = await asyncio.wait_for(task, timeout=60)
        out = {"outcome": "tuple", "pkts": [str(p) if p is not None else None for p in res]}
    except rexc.BindingError as err:
        out = {"outcome": "binding-error", "error": type(err).__name__}
    except Exception as err:  # noqa: BLE001
        out = {"outcome": "other-exception", "error": type(err).__name__, "where": innermost_lib_frame(err), "text": str(err)[:120]}
    out["took"] = loop.time() - t0
    await asyncio.sleep(6.0)
    ctx.count("solo.attempts")
    n = len(f)
    if out["outcome"] != "tuple":
        ctx.violate(
            f"C20|solo|{role}|failed-against-a-conforming-peer|{out['outcome']}|{out.get('error')}",
            "against a peer that sends every handshake frame (each repeated like a real RF device) the library's end did not report success",
            {"observed": out, "episode": meta},
        )
    elif out["pkts"][:n] != list(f):
        ctx.violate(
            f"C20|solo|{role}|succeeded-with-wrong-packets",
            "the library's end reports success but its offer / accept / confirm (/ addenda) packets are not the ones exchanged",
            {"returned": out["pkts"], "exchanged": list(f), "episode": meta},
        )
    else:
        ctx.count("solo.succeeded")
    if dev._bind_context.is_binding:
        ctx.violate(f"C20|solo|{role}|still-binding-afterwards", "after the handshake the device was still binding", {"state": repr(dev._bind_context.state), "episode": meta})
    for u in loop.unhandled:
        if "binding_fsm" in (u.get("where") or "") or u.get("type") == "InvalidStateError":
            ctx.violate(f"C20|unhandled|loop|{u['type']}|{u['where']}", "a binding callback raised inside the event loop (unhandled)", {"exception": u, "episode": meta})
    ctx.ev()
    ctx.seen(f"solo|{role}|{flow['name']}|x{repeats}|{out['outcome']}")
    if trial < 1:
        ctx.sample({"episode": meta, "observed": out})
    await harness.stop_gateway(gwy)
    air.close()


API_FLOWS: list[dict[str, Any]] = [
    {"name": "api DHW->CTL", "resp": {"01:145038": {"class": "CTL"}}, "supp": {"07:045960": {"class": "DHW", "faked": True}}, "accept": ["10A0"], "idx": "00"},
    {"name": "api RND->CTL (zone 01)", "resp": {"01:220768": {"class": "CTL"}}, "supp": {"34:259472": {"class": "RND", "faked": True}}, "accept": ["2309"], "idx": "01"},
    {"name": "api RND->CTL (zone 00)", "resp": {"01:220768": {"class": "CTL"}}, "supp": {"34:259472": {"class": "RND", "faked": True}}, "accept": ["2309"], "idx": "00"},
    {"name": "api CO2->FAN", "resp": {"18:126620": {"class": "FAN", "scheme": "itho"}}, "supp": {"37:154011": {"class": "CO2", "scheme": "itho", "faked": True}}, "accept": ["31D9", "31DA"], "idx": "00"},
    {"name": "api REM->FAN(nuaire)", "resp": {"30:098165": {"class": "FAN", "scheme": "nuaire"}}, "supp": {"32:208628": {"class": "REM", "scheme": "nuaire", "faked": True}}, "accept": ["31DA"], "idx": "21"},
    {"name": "api REM->FAN(orcon)", "resp": {"32:155617": {"class": "FAN", "scheme": "orcon"}}, "supp": {"29:158183": {"class": "REM", "scheme": "orcon", "faked": True}}, "accept": ["31D9", "31DA"], "idx": "00"},
]


async def api_episode(loop: vloop.VirtualLoop, ctx, trial: int) -> None:
    """The supplicant's *public* entry point, initiate_binding_process(), which chooses the code list itself
    (one bare code for a DHW sensor or a Nuaire remote, a tuple for the others), against a faked respondent;
    frames repeated like RF devices do; then a second attempt."""
    from ramses_rf import exceptions as rexc

    rng = random.Random(f"C20api/{ctx.seed}/{trial}")
    flow = API_FLOWS[trial % len(API_FLOWS)]
    script = Script()
    if rng.random() < 0.6:
        for ph in PHASES[:3]:
            if rng.random() < 0.5:
                script.plan[ph] = {"kind": "copies", "n": rng.choice((2, 3)), "gap": rng.choice((0.0, 0.02, 0.1))}
    air = airmod.Air(loop, fault=script)
    cfg = {"disable_discovery": True, "disable_qos": False, "enforce_known_list": True}
    known = {**flow["resp"], **flow["supp"]}
    gwy_r = await harness.start_port_gateway(loop, air, "18:111111", config=dict(cfg), known_list={k: dict(v) for k, v in known.items()}, orphans_hvac=list(flow["resp"]))
    gwy_s = await harness.start_port_gateway(loop, air, "18:222222", config=dict(cfg), known_list={k: dict(v) for k, v in known.items()}, orphans_hvac=list(flow["supp"]))
    await asyncio.sleep(0.3)
    resp = gwy_r.device_by_id.get(list(flow["resp"])[0]) or gwy_r.get_device(list(flow["resp"])[0])
    supp = gwy_s.device_by_id.get(list(flow["supp"])[0]) or gwy_s.get_device(list(flow["supp"])[0])
    ensure_fakeable(resp)
    ensure_fakeable(supp)
    meta = {"seed": ctx.seed, "trial": trial, "api": True, "flow": flow["name"], "script": {k: dict(v) for k, v in script.plan.items()}}
    n_unhandled = len(loop.unhandled)
    for round_ in ("attempt", "retry"):
        out: dict[str, Any] = {}

        async def side(name: str, coro) -> None:
            t0 = loop.time()
            try:
                res = await asyncio.wait_for(coro, timeout=90)
                out[name] = {"outcome": "tuple", "pkts": [str(p) if p is not None else None for p in res]}
            except rexc.BindingError as err:
                out[name] = {"outcome": "binding-error", "error": type(err).__name__, "text": str(err)[:160]}
            except asyncio.TimeoutError:
                out[name] = {"outcome": "open"}
            except Exception as err:  # noqa: BLE001
                out[name] = {"outcome": "other-exception", "error": type(err).__name__, "where": innermost_lib_frame(err), "text": str(err)[:160]}
            out[name]["took"] = loop.time() - t0

        r_task = asyncio.ensure_future(side("respondent", resp._wait_for_binding_request(flow["accept"], idx=flow["idx"])))
        await asyncio.sleep(rng.choice((0.0, 0.05, 0.5)))
        s_task = asyncio.ensure_future(side("supplicant", supp.initiate_binding_process()))
        await asyncio.wait([r_task, s_task])
        await asyncio.sleep(rng.choice((0.0, 6.0)))
        await vloop.drain(loop, 6)
        ctx.count("api.attempts")
        r, sres = out["respondent"], out["supplicant"]
        if r["outcome"] == "tuple" and sres["outcome"] == "tuple":
            ctx.count("api.both_succeeded")
            if r["pkts"][:3] != sres["pkts"][:3]:
                ctx.violate(f"C20|api|{round_}|both-succeeded-with-different-packets", "both ends report success but not with the same offer / accept / confirm packets", {"respondent": r["pkts"], "supplicant": sres["pkts"], "episode": meta})
        elif flow["name"].startswith("api RND->CTL") and flow["idx"] not in ("00", "21") and "Payload doesn't match" in sres.get("text", ""):
            # recorded finding: Thermostat.initiate_binding_process() passes no confirm code, so its Confirm is the
            # bare zone index of the Accept - a frame the library's own decoder rejects unless the zone is 00
            ctx.violate(
                "C20|api|thermostat-confirm-is-a-bare-zone-idx",
                "a thermostat bound through its public initiate_binding_process() to a controller zone other than 00 builds a Confirm ('1FC9 001 <idx>') that the library's own decoder rejects: the binding fails on both ends",
                {"respondent": r, "supplicant": sres, "episode": meta},
            )
        else:
            ctx.violate(
                f"C20|api|{round_}|failed-on-a-clean-air|resp={r['outcome']}:{r.get('error', '')}|supp={sres['outcome']}:{sres.get('error', '')}",
                "with every frame delivered (repeats only), a binding started through the device's public initiate_binding_process() did not succeed on both ends",
                {"respondent": r, "supplicant": sres, "episode": meta},
            )
        for dev, name in ((resp, "respondent"), (supp, "supplicant")):
            if dev._bind_context.is_binding:
                ctx.violate(f"C20|api|{round_}|{name}-still-binding", "after the attempt had ended the device was still binding", {"state": repr(dev._bind_context.state), "episode": meta})
    for u in loop.unhandled[n_unhandled:]:
        if "binding_fsm" in (u.get("where") or "") or u.get("type") == "InvalidStateError":
            ctx.violate(f"C20|unhandled|loop|{u['type']}|{u['where']}", "a binding callback raised inside the event loop (unhandled)", {"exception": u, "episode": meta})
    ctx.ev()
    ctx.seen(f"{flow['name']}|{'+'.join(sorted(script.plan)) or 'clean'}")
    await harness.stop_gateway(gwy_r)
    await harness.stop_gateway(gwy_s)
    air.close()


def run(ctx) -> None:
    n = 60 if ctx.quick else 1200
    jobs = [("pair", ctx.shard + k * ctx.nshards) for k in range(n)] + [("solo", ctx.shard + k * ctx.nshards) for k in range(n // 4)] + [("api", ctx.shard + k * ctx.nshards) for k in range(n // 10)]
    for kind, trial in jobs:
        harness.reset_transport_globals()

        async def go(loop, kind=kind, trial=trial):
            WAITS.clear()
            with clocks_patched(), waits_tapped():
                await {"pair": episode, "solo": solo_episode, "api": api_episode}[kind](loop, ctx, trial)

        try:
            vloop.run(go)
        except vloop.Starved as err:
            ctx.inconclusive_because(f"episode starved the virtual clock: {err}")


def replay(data: dict[str, Any]) -> int:
    from .common import Ctx

    bad, seen = 0, set()
    for w in data.get("witnesses", []):
        ep = w.get("episode") or {}
        if "trial" not in ep or (ep["seed"], ep["trial"]) in seen:
            continue
        seen.add((ep["seed"], ep["trial"]))
        ctx = Ctx(PID, "quick", ep["seed"], 0, 1)
        harness.reset_transport_globals()

        async def go(loop, ep=ep, ctx=ctx):
            WAITS.clear()
            with clocks_patched(), waits_tapped():
                await (solo_episode if "solo" in ep else api_episode if ep.get("api") else episode)(loop, ctx, ep["trial"])

        vloop.run(go)
        for k, v in ctx.violations.items():
            print("REPRODUCED", k, "-", v["what"])
            bad += 1
        if not ctx.violations:
            print(f"episode seed={ep['seed']} trial={ep['trial']}: not reproduced")
    return bad
