"""Virtual air and fault injector (DESIGN §2.3).

Connects FakeSerial ports (each fronting an evofw3-like gateway stick with its own id) and
simulated devices.  Every delivery passes through a fault script.
"""

from __future__ import annotations

from collections.abc import Callable
from typing import Any

from . import vloop
from .boundary import FakeSerial

HGI_PLACEHOLDER = "18:000730"

# fault script: fn(kind, frame, target) -> list of delays (seconds). [] = dropped, two
# entries = duplicated.  kind in {"echo", "rf"}; target = port name or "sim".
FaultFn = Callable[[str, str, str], list[float]]


def no_faults(kind: str, frame: str, target: str) -> list[float]:
    return [0.004 if kind == "echo" else 0.012]


class Air:
    def __init__(self, loop: vloop.VirtualLoop, fault: FaultFn | None = None) -> None:
        self.loop = loop
        self.fault: FaultFn = fault or no_faults
        self.ports: dict[str, tuple[FakeSerial, str]] = {}  # name -> (port, gateway id)
        self.listeners: list[Callable[[str], Any]] = []
        self.log: list[tuple[float, str, str]] = []  # (vt, origin, frame) everything put on air
        self.tx_log: list[tuple[float, str, str]] = []  # (vt, port, frame) as written by gateways

    def add_port(self, gwy_id: str) -> FakeSerial:
        port = FakeSerial(on_write=self._port_wrote)
        self.ports[port.name] = (port, gwy_id)
        return port

    def swap_stick(self, old: FakeSerial, gwy_id: str) -> FakeSerial:
        """The dongle on a port is replaced by another one (other id): the same device path now opens a new port."""
        from .boundary import _REGISTRY

        port = FakeSerial(on_write=self._port_wrote)
        self.ports.pop(old.name, None)
        self.ports[port.name] = (port, gwy_id)
        path = getattr(old, "alias", old.name)  # the device path the gateway was given (also after earlier swaps)
        _REGISTRY[path] = port  # what that path resolves to from now on
        port.alias = path  # type: ignore[attr-defined]
        return port

    def add_listener(self, fn: Callable[[str], Any]) -> None:
        self.listeners.append(fn)

    # -- gateway stick behaviour ----------------------------------------------------
    def _port_wrote(self, port: FakeSerial, data: bytes) -> None:
        text = data.decode("ascii", errors="replace").rstrip("\r\n")
        _, gwy_id = self.ports[port.name]
        if text[:1] == "!":
            if text == "!V":
                self.loop.call_later(0.001, port.stage, b"# evofw3 0.7.1\r\n")
            return
        self.tx_log.append((self.loop.time(), port.name, text))
        if text[7:16] == HGI_PLACEHOLDER:
            text = text[:7] + gwy_id + text[16:]
        self.log.append((self.loop.time(), gwy_id, text))
        for d in self.fault("echo", text, port.name):
            self.loop.call_later(d, port.stage, f"000 {text}\r\n".encode())
        self._radiate(text, origin_port=port.name)

    def _radiate(self, frame: str, origin_port: str | None = None) -> None:
        for name, (port, _) in self.ports.items():
            if name == origin_port:
                continue
            for d in self.fault("rf", frame, name):
                self.loop.call_later(d, port.stage, f"045 {frame}\r\n".encode())
        for fn in self.listeners:
            for d in self.fault("rf", frame, "sim"):
                self.loop.call_later(d, fn, frame)

    # -- simulated devices / harness put frames on air ----------------------------------
    def inject(self, frame: str, delay: float = 0.0, rssi: str = "045", faultable: bool = True) -> None:
        """A (simulated) device transmits `frame`; every port hears it."""

        def go() -> None:
            self.log.append((self.loop.time(), "sim", frame))
            for name, (port, _) in self.ports.items():
                delays = self.fault("rf", frame, name) if faultable else [0.0]
                for d in delays:
                    self.loop.call_later(d, port.stage, f"{rssi} {frame}\r\n".encode())

        if delay > 0:
            self.loop.call_later(delay, go)
        else:
            go()

    def close(self) -> None:
        for port, _ in self.ports.values():
            port.close()
