"""Monitor infrastructure shared by the checks (DESIGN §2.6)."""

from __future__ import annotations

import logging
import sys
from collections import Counter
from collections.abc import Iterable
from types import CodeType
from typing import Any


def innermost_lib_frame(err: BaseException) -> str:
    """'file.py:function' of the deepest traceback frame that lies in the library."""
    tb = err.__traceback__
    found = "?"
    while tb is not None:
        code = tb.tb_frame.f_code
        if "/ramses_" in code.co_filename:
            found = f"{code.co_filename.rsplit('/', 1)[-1]}:{code.co_name}"
        tb = tb.tb_next
    return found


class LogCapture(logging.Handler):
    """Counts library log records that report an internal inconsistency."""

    def __init__(self) -> None:
        super().__init__(level=logging.DEBUG)
        self.coding_errors: list[str] = []
        self.error_records = 0
        self.tracebacks: Counter[str] = Counter()

    def emit(self, record: logging.LogRecord) -> None:
        try:
            msg = record.getMessage()
        except Exception:
            msg = str(record.msg)
        if "Coding error" in msg:
            self.coding_errors.append(msg[:200])
        if record.levelno >= logging.ERROR:
            self.error_records += 1
        if record.exc_info and record.exc_info[1] is not None:
            self.tracebacks[f"{type(record.exc_info[1]).__name__}@{innermost_lib_frame(record.exc_info[1])}"] += 1

    def __enter__(self) -> "LogCapture":
        self._saved = []
        for name in ("ramses_tx", "ramses_rf"):
            lg = logging.getLogger(name)
            self._saved.append((lg, lg.level, lg.propagate, list(lg.handlers)))
            lg.handlers = [self]
            lg.setLevel(logging.WARNING)
            lg.propagate = False
        return self

    def __exit__(self, *a: Any) -> None:
        for lg, level, prop, handlers in self._saved:
            lg.handlers = handlers
            lg.setLevel(level)
            lg.propagate = prop


class Reach:
    """sys.monitoring reach counters on named library functions (PY_START/RESUME/THROW)."""

    TOOL = 3

    def __init__(self, wanted: Iterable[tuple[str, str]]) -> None:
        # wanted: (filename suffix, qualified function name)
        self.wanted = set(wanted)
        self.hits: Counter[str] = Counter()
        self._on = False

    def _cb(self, code: CodeType, offset: int, *rest: Any) -> Any:
        mon = sys.monitoring
        fname = code.co_filename
        for suffix, qual in self.wanted:
            if fname.endswith(suffix) and code.co_qualname == qual:
                self.hits[qual] += 1
                return None
        return mon.DISABLE

    def __enter__(self) -> "Reach":
        mon = sys.monitoring
        try:
            mon.use_tool_id(self.TOOL, "vrf-reach")
        except ValueError:
            mon.free_tool_id(self.TOOL)
            mon.use_tool_id(self.TOOL, "vrf-reach")
        ev = mon.events
        for e in (ev.PY_START, ev.PY_RESUME):
            mon.register_callback(self.TOOL, e, self._cb)
        mon.register_callback(self.TOOL, ev.PY_THROW, lambda code, off, exc: self._cb(code, off))
        mon.set_events(self.TOOL, ev.PY_START | ev.PY_RESUME | ev.PY_THROW)
        mon.restart_events()
        self._on = True
        return self

    def __exit__(self, *a: Any) -> None:
        mon = sys.monitoring
        mon.set_events(self.TOOL, 0)
        mon.free_tool_id(self.TOOL)
        self._on = False
