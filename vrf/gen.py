"""Corpora and generators (DESIGN §2.5): log corpus, frame grammar, regex sampler, mutators."""

from __future__ import annotations

import os
import re
from functools import lru_cache
from pathlib import Path
from random import Random

try:  # 3.11+
    import re._parser as sre_parse  # type: ignore[import-not-found]
except ImportError:  # pragma: no cover
    import sre_parse  # type: ignore[no-redef]

REPO_ROOT = Path(os.environ.get("VERIF_REPO_ROOT", "/repo"))
DTM_RE = re.compile(r"^\d{4}-[01]\d-[0-3]\d[T ][0-2]\d:[0-5]\d:[0-5]\d\.\d{6}$")
HEX = "0123456789ABCDEF"
VERBS = (" I", "RQ", "RP", " W")


# ---------------------------------------------------------------------- log corpus
@lru_cache(maxsize=1)
def corpus() -> list[tuple[str, str, str]]:
    """[(dtm, rest-of-line, file)] for every datable line of every *.log under tests/."""
    out: list[tuple[str, str, str]] = []
    seen: set[str] = set()
    for path in sorted((REPO_ROOT / "tests").rglob("*.log")):
        try:
            text = path.read_text(errors="replace")
        except OSError:
            continue
        for line in text.splitlines():
            line = line.strip()
            if not line or line[0] == "#" or not DTM_RE.match(line[:26]):
                continue
            rest = line[27:]
            if rest in seen:
                continue
            seen.add(rest)
            out.append((line[:26], rest, str(path.relative_to(REPO_ROOT))))
    return out


@lru_cache(maxsize=1)
def corpus_frames() -> list[tuple[str, str]]:
    """[(dtm, 'RSSI frame')] for corpus lines whose frame part is structurally a frame."""
    from ramses_tx.const import MESSAGE_REGEX

    out = []
    for dtm, rest, _ in corpus():
        frame = rest.split("#")[0].split("*")[0].split("<")[0].strip()
        if MESSAGE_REGEX.match(frame):
            out.append((dtm, frame))
    return out


def log_files(sub: str) -> list[Path]:
    return sorted((REPO_ROOT / "tests").rglob(sub))


def read_log(path: Path) -> list[tuple[str, str]]:
    out = []
    for line in path.read_text(errors="replace").splitlines():
        line = line.strip()
        if line and line[0] != "#" and DTM_RE.match(line[:26]):
            out.append((line[:26], line[27:]))
    return out


# ---------------------------------------------------------------------- regex sampler
_CATS = {
    "category_digit": "0123456789",
    "category_word": HEX,
    "category_space": " ",
}


class RegexSampler:
    """Sample strings from a (hex-alphabet) regex; biased to boundaries and extreme hex."""

    def __init__(self, rng: Random, alphabet: str = HEX, max_repeat: int = 6):
        self.rng, self.alphabet, self.max_repeat = rng, alphabet, max_repeat

    def sample(self, pattern: str, tail_bytes: int | None = None) -> str:
        tree = sre_parse.parse(pattern)
        s = self._seq(tree)
        if not pattern.endswith("$"):  # unanchored tail: the regex accepts any suffix
            n = self.rng.choice((0, 0, 1, 2, 3, 6)) if tail_bytes is None else tail_bytes
            s += "".join(self.rng.choice(HEX) for _ in range(2 * n))
        return s

    def _seq(self, items) -> str:
        return "".join(self._node(op, av) for op, av in items)

    def _extreme(self) -> str:
        return self.rng.choice("0F7E")

    def _node(self, op, av) -> str:  # noqa: C901
        name = str(op)
        r = self.rng
        if name == "LITERAL":
            return chr(av)
        if name == "NOT_LITERAL":
            return r.choice([c for c in self.alphabet if ord(c) != av])
        if name == "ANY":
            return self._extreme() if r.random() < 0.5 else r.choice(self.alphabet)
        if name == "IN":
            chars: list[str] = []
            negate = False
            for o, a in av:
                o = str(o)
                if o == "NEGATE":
                    negate = True
                elif o == "LITERAL":
                    chars.append(chr(a))
                elif o == "RANGE":
                    chars += [chr(c) for c in range(a[0], a[1] + 1)]
                elif o == "CATEGORY":
                    chars += list(_CATS.get(str(a).lower(), HEX))
            if negate:
                chars = [c for c in self.alphabet if c not in chars]
            chars = [c for c in chars if c in self.alphabet or not c.isalnum()] or chars
            if r.random() < 0.45:  # boundary bias: first/last of the class
                return r.choice((chars[0], chars[-1]))
            return r.choice(chars)
        if name in ("MAX_REPEAT", "MIN_REPEAT"):
            lo, hi, sub = av
            hi = min(int(hi), max(lo, self.max_repeat)) if hi > 64 else int(hi)
            pick = r.random()
            n = lo if pick < 0.3 else hi if pick < 0.6 else r.randint(lo, hi)
            if r.random() < 0.3 and n:  # homogeneous extreme run (FFFF, 0000, 7F7F …)
                one = self._seq(sub)
                if len(one) == 1:
                    return self._extreme_in(sub) * n
            return "".join(self._seq(sub) for _ in range(n))
        if name == "SUBPATTERN":
            return self._seq(av[3])
        if name == "BRANCH":
            return self._seq(r.choice(av[1]))
        if name == "AT":
            return ""
        if name in ("ASSERT", "ASSERT_NOT", "GROUPREF"):
            return ""
        raise NotImplementedError(name)

    def _extreme_in(self, sub) -> str:
        for c in "F07E":
            pat_ok = True
            try:
                op, av = sub[0]
                if str(op) == "IN":
                    chars = set()
                    for o, a in av:
                        if str(o) == "LITERAL":
                            chars.add(chr(a))
                        elif str(o) == "RANGE":
                            chars |= {chr(x) for x in range(a[0], a[1] + 1)}
                    pat_ok = c in chars
                elif str(op) == "ANY":
                    pat_ok = True
                else:
                    pat_ok = False
            except Exception:
                pat_ok = False
            if pat_ok:
                return c
        return self._seq(sub)


def sample_payload(rng: Random, code: str, verb: str, sampler: RegexSampler | None = None) -> str | None:
    """A payload accepted by CODES_SCHEMA[code][verb] (even number of hex chars, 1..48 bytes)."""
    from ramses_tx.ramses import CODES_SCHEMA

    regex = CODES_SCHEMA.get(code, {}).get(verb)
    if not regex:
        return None
    sampler = sampler or RegexSampler(rng)
    for _ in range(12):
        try:
            s = sampler.sample(regex)
        except NotImplementedError:
            return None
        if len(s) % 2:
            s += rng.choice(HEX)
        if 2 <= len(s) <= 96 and re.match(regex, s):
            return s
    return None


# ---------------------------------------------------------------------- frame grammar
def dev_id(rng: Random, typ: int | None = None) -> str:
    if typ is None:
        typ = rng.choice((1, 2, 4, 7, 10, 12, 13, 18, 22, 23, 30, 32, 34, 37, rng.randint(0, 63)))
    n = rng.choice((0, 1, 730, 145038, 262142, 262143, rng.randint(0, 262143)))
    if typ == 63 and n == 262142:
        n = 262141
    return f"{typ:02d}:{n:06d}"


NON = "--:------"
ALL = "63:262142"


def addr_set(rng: Random, shape: int | None = None, src: str | None = None, dst: str | None = None) -> str:
    """One of the three legal address-set shapes."""
    shape = rng.randrange(4) if shape is None else shape
    a = src or dev_id(rng)
    b = dst or dev_id(rng)
    while b == a:
        b = dev_id(rng)
    if shape == 0:  # src --:------ src   (announcement)
        return f"{a} {NON} {a}"
    if shape == 1:  # src --:------ dst
        return f"{a} {NON} {b}"
    if shape == 2:  # src dst --:------
        return f"{a} {b} {NON}"
    return f"{NON} {NON} {a}"  # --:------ --:------ src


def seqn(rng: Random) -> str:
    return "---" if rng.random() < 0.5 else f"{rng.choice((0, 1, 127, 255, rng.randint(0, 255))):03d}"


def rssi(rng: Random) -> str:
    return rng.choice(("---", "...", "000", "045", "255", f"{rng.randint(0, 255):03d}"))


def rand_payload(rng: Random, nbytes: int | None = None) -> str:
    n = nbytes or rng.choice((1, 2, 3, 6, 12, 24, 47, 48, rng.randint(1, 48)))
    return "".join(rng.choice(HEX) for _ in range(2 * n))


def frame(rng: Random, verb=None, code=None, addrs=None, payload=None, seq=None) -> str:
    from ramses_tx.ramses import CODES_SCHEMA

    verb = verb or rng.choice(VERBS)
    if code is None:
        code = rng.choice(list(CODES_SCHEMA)) if rng.random() < 0.8 else "".join(rng.choice(HEX) for _ in range(4))
    payload = payload or rand_payload(rng)
    addrs = addrs or addr_set(rng)
    return f"{verb} {seq or seqn(rng)} {addrs} {code} {len(payload) // 2:03d} {payload}"


# ---------------------------------------------------------------------- mutators
def mutate_frame(rng: Random, line: str, k: int = 1) -> str:
    """k edits to an 'RSSI frame' line: hex flips, address corruption, length ±, truncation…"""
    for _ in range(k):
        op = rng.randrange(11)
        parts = line.split(" ")
        if op == 0 and len(line) > 50:  # flip a payload hex digit
            i = rng.randrange(50, len(line))
            if line[i] in HEX:
                line = line[:i] + rng.choice(HEX) + line[i + 1 :]
        elif op == 1:  # corrupt an address digit
            i = rng.randrange(11, min(40, len(line)))
            line = line[:i] + rng.choice("0123456789-:") + line[i + 1 :]
        elif op == 2 and len(line) > 49:  # length field
            i = rng.randrange(46, 49)
            line = line[:i] + rng.choice("0123456789") + line[i + 1 :]
        elif op == 3 and len(line) > 52:  # truncate payload (odd or even)
            line = line[: rng.randrange(50, len(line))]
        elif op == 4:  # extend payload
            line = line + "".join(rng.choice(HEX) for _ in range(rng.choice((1, 2, 4))))
        elif op == 5 and len(line) > 45:  # swap code
            from ramses_tx.ramses import CODES_SCHEMA

            line = line[:41] + rng.choice(list(CODES_SCHEMA)) + line[45:]
        elif op == 6 and len(line) > 6:  # swap verb
            line = line[:4] + rng.choice(VERBS) + line[6:]
        elif op == 7:  # RSSI garble
            line = rng.choice(("", "---", "..", "1234", "0A0", "   ")) + line[3:]
        elif op == 8:  # annotation injection
            line = line + rng.choice((" * Checksum error", " # comment", " < hint", "*", "#", " * ", " # # "))
        elif op == 9 and len(parts) > 3:  # delete / duplicate a field
            i = rng.randrange(len(parts))
            parts = parts[:i] + parts[i + 1 :] if rng.random() < 0.5 else parts[: i + 1] + parts[i:]
            line = " ".join(parts)
        elif op == 10:  # stray character anywhere
            i = rng.randrange(len(line) + 1)
            line = line[:i] + rng.choice(" \t\x00\x7fé*#<-:Zz") + line[i:]
    return line


CHATTER = (
    "# evofw3 0.7.1",
    "!V",
    "",
    " ",
    "\x00\x00",
    "# evofw3 0.7.1\r",
    "!C",
    "* Checksum error",
    "095 RQ --- 18:013393",
    "000  I --- 01:145038 --:------ 01:145038 1F09 003 FF0",
    "000 XX --- 01:145038 --:------ 01:145038 1F09 003 FF073F",
    "\xff\xfe garbage",
    "---  I --- --:------ --:------ --:------ 1F09 003 FF073F",
    "Ahhh....",
)
