"""C02 — frame text round-trips: parse then print is the identity, through logs too.

(a) str(Command(f)) == f and field-wise preservation, over the frame grammar;
(b) str(Packet(dtm, rssi+f)) == f for every RSSI form and comment annotation, via
    from_port/from_file/from_dict;
(c) Command.from_cli(short form) prints the canonical long form;
(d) a port gateway writes its packet log with the library's own logger, a file gateway
    replays that log: the (timestamp, frame) message sequences must be identical.
"""

from __future__ import annotations

import asyncio
import logging
import os
import shutil
import tempfile
from datetime import datetime as dt

from . import air as airmod, gen, harness, vloop
from .boundary import clocks_patched
from .mon import innermost_lib_frame

PID = "C02"
LEVEL = "exploration"
SHARDS = {"quick": 16, "thorough": 16}
WALL_LIMIT = {"quick": 600, "thorough": 3600}
RULE = (
    "frames from the grammar verb x seqn(---,000-255) x three legal address shapes x device "
    "types 00-63 x known/unknown codes x payload 1-48 bytes; CLI short forms (1/2/3 addresses, "
    "with/without seqn, lower case); packets with every RSSI form and comment annotations; log "
    "sessions of 30-60 corpus packets through a real port gateway's packet logger and the file "
    "replayer. Distinct = (api, verb, seqn-form, address shape, src type, code-known?, payload "
    "length) and (session, rssi form, annotation) classes; frames the constructor refuses are "
    "outside the quantifier and not counted as distinct."
)
ASSUMPTIONS = [
    "'structurally valid' = accepted by COMMAND_REGEX with a legal address set",
    "log sessions run on the virtual clock: packet timestamps are the (ms-truncated) read times",
    "frames are compared as text (Frame.__eq__ ignores the verb, so it is not the oracle)",
]
REQUIRED = {"cmd.frames": 500, "pkt.frames": 500, "cli.forms": 200, "log.sessions": 1, "log.packets": 20}


def _fields(frame: str) -> tuple[str, str, str, str, str, str, str, str]:
    verb, rest = frame[:2], frame[3:]
    seqn, a0, a1, a2, code, len_, payload = rest.split(" ")
    return verb, seqn, a0, a1, a2, code, len_, payload


def _check_fields(ctx, api: str, obj, frame: str) -> None:
    verb, seqn, a0, a1, a2, code, len_, payload = _fields(frame)
    got = (
        obj.verb,
        obj.seqn,
        *(a.id for a in obj._addrs),
        obj.code,
        obj.len_,
        obj.payload,
    )
    want = (verb, seqn, a0, a1, a2, code, len_, payload)
    if got != want:
        ctx.violate(
            f"C02|{api}|field-not-preserved",
            "a field of the parsed frame differs from the text it was parsed from",
            {"frame": frame, "got": got},
        )
    if int(obj.len_) != len(obj.payload) // 2 or obj._len != len(obj.payload) // 2:
        ctx.violate(f"C02|{api}|length-mismatch", "length field != payload byte count", frame)


def part_frames(ctx) -> None:
    from ramses_tx import exceptions as exc
    from ramses_tx.command import Command
    from ramses_tx.packet import Packet

    rng = ctx.rng
    n = 3000 if ctx.quick else 120000
    types = list(range(64))
    for i in range(n):
        typ = types[i % 64]
        shape = (i // 64) % 4
        nbytes = 1 + (i % 48)
        src = gen.dev_id(rng, typ)
        if src in (gen.ALL,):
            continue
        addrs = gen.addr_set(rng, shape, src=src)
        frame = gen.frame(rng, addrs=addrs, payload=gen.rand_payload(rng, nbytes))
        verb, seqn, a0, a1, a2, code, len_, payload = _fields(frame)
        sig = f"{verb}|{'-' if seqn == '---' else 'n'}|{shape}|{typ}|{nbytes}"
        ctx.ev()
        # (a) Command
        try:
            cmd = Command(frame)
        except exc.CommandInvalid:
            ctx.count("cmd.refused")
            cmd = None
        except Exception as err:  # noqa: BLE001
            ctx.violate(
                f"C02|Command|{type(err).__name__}|{innermost_lib_frame(err)}",
                "Command(frame) raises something other than CommandInvalid",
                {"frame": frame, "error": repr(err)[:160]},
            )
            cmd = None
        if cmd is not None:
            ctx.count("cmd.frames")
            ctx.seen("cmd|" + sig)
            if str(cmd) != frame:
                ctx.violate(
                    "C02|Command|print-differs",
                    "str(Command(frame)) != frame",
                    {"frame": frame, "printed": str(cmd)},
                )
            _check_fields(ctx, "Command", cmd, frame)
            if Command(str(cmd))._frame != frame:
                ctx.violate("C02|Command|reparse-differs", "re-parsing the printed command differs", frame)
        # (b) Packet, all constructors
        r = gen.rssi(rng)
        # format: packet[ < parser-hint][ * evofw3-err_msg][ # comment]; a comment is free text (may hold * < #)
        note = rng.choice(("", "", " # a comment", "  # {\"hint\": true}", " < a parser hint", " # x # y", " # 5 * 7 = 35", " # a < b", " # *", " < hint # comment * x"))
        line = f"{r} {frame}{note}"
        now = dt(2024, 3, 1, 12, 0, 0, i % 1000000)
        for how in ("port", "file", "dict"):
            try:
                if how == "port":
                    pkt = Packet.from_port(now, line)
                elif how == "file":
                    pkt = Packet.from_file(now.isoformat(timespec="microseconds"), line)
                else:
                    pkt = Packet.from_dict(now.isoformat(timespec="microseconds"), line)
            except (exc.PacketInvalid, ValueError):
                ctx.count("pkt.refused")
                if note.lstrip()[:1] in ("#", "<"):  # a comment / hint is not part of the frame: it cannot make it invalid
                    try:
                        bare = f"{r} {frame}"
                        Packet.from_port(now, bare) if how == "port" else Packet.from_file(now.isoformat(timespec="microseconds"), bare) if how == "file" else Packet.from_dict(now.isoformat(timespec="microseconds"), bare)
                    except (exc.PacketInvalid, ValueError):
                        pass
                    else:
                        ctx.violate(
                            f"C02|Packet.from_{how}|annotation-changes-acceptance",
                            "a structurally valid frame is accepted on its own but refused when a comment or parser hint follows it",
                            {"line": line},
                        )
                continue
            ctx.count("pkt.frames")
            ctx.seen(f"pkt|{how}|{r if r in ('---', '...') else 'ddd'}|{note[:3]}|" + sig)
            if str(pkt) != frame:
                ctx.violate(
                    f"C02|Packet.from_{how}|print-differs",
                    "str(Packet) != the frame it was parsed from",
                    {"line": line, "printed": str(pkt)},
                )
            _check_fields(ctx, f"Packet.from_{how}", pkt, frame)
            if pkt._rssi != r or pkt.dtm != now:
                ctx.violate(
                    f"C02|Packet.from_{how}|meta-not-preserved",
                    "RSSI or timestamp not preserved",
                    {"line": line, "rssi": pkt._rssi, "dtm": str(pkt.dtm)},
                )
            rep = repr(pkt)
            if rep[:26] != now.isoformat(timespec="microseconds") or rep[27:30] != "..." or not rep[31:].startswith(frame):
                ctx.violate(
                    f"C02|Packet.from_{how}|repr-differs",
                    "repr(Packet) (the storage form) does not carry the timestamp and frame",
                    {"line": line, "repr": rep},
                )
        if i < 2:
            ctx.sample({"kind": "frame", "line": line})


def part_cli(ctx) -> None:
    from ramses_tx import exceptions as exc
    from ramses_tx.command import Command

    rng = ctx.rng
    n = 1500 if ctx.quick else 60000
    for i in range(n):
        shape = i % 4
        nbytes = rng.choice((1, 2, 3, 8, 23, 24, 25, 30, 47, 48))
        src = gen.dev_id(rng, rng.randrange(63))
        dst = gen.dev_id(rng, rng.randrange(63))
        if dst == src:
            continue
        verb = rng.choice(gen.VERBS)
        if shape == 3:
            verb = " I"
        sq = gen.seqn(rng)
        code = rng.choice(("1F09", "30C9", "0404", "3220", "22F1", "ABCD", "7FFF"))
        payload = gen.rand_payload(rng, nbytes)
        forms: list[tuple[str, list[str]]] = []
        if shape == 0:
            a = (src, gen.NON, src)
            forms.append(("2addr-same", [src, src]))
        elif shape == 1:
            a = (src, gen.NON, dst)
        elif shape == 2:
            a = (src, dst, gen.NON)
            forms.append(("2addr", [src, dst]))
        else:
            a = (gen.NON, gen.NON, src)  # (the 1-address ' I' form is not documented: not judged)
        if shape == 2 and verb != " I" and rng.random() < 0.5:
            a = ("18:000730", dst, gen.NON)
            forms = [("1addr", [dst]), ("2addr", ["18:000730", dst])]
        forms.append(("3addr", list(a)))
        want = f"{verb} {sq} {a[0]} {a[1]} {a[2]} {code} {nbytes:03d} {payload}"
        try:
            Command(want)
        except exc.CommandInvalid:
            continue
        for name, addrs in forms:
            for with_seqn in (True, False):
                if not with_seqn and sq != "---":
                    continue
                if name == "3addr" and not with_seqn and not addrs[0][:2].isdigit():
                    # documented form always carries a seqn when addr0 is '--:------'
                    ctx.count("cli.skipped_ambiguous")
                    continue
                parts = [verb.strip()] + ([sq] if with_seqn else []) + addrs + [code, payload]
                text = ("  " if rng.random() < 0.3 else " ").join(parts)
                if rng.random() < 0.3:
                    text = text.lower()
                ctx.ev()
                ctx.count("cli.forms")
                ctx.seen(f"cli|{name}|{with_seqn}|{verb}|{nbytes}")
                try:
                    cmd = Command.from_cli(text)
                except exc.PacketInvalid as err:
                    ctx.violate(
                        f"C02|from_cli|refused-valid-form|{name}",
                        "a valid CLI short form is refused",
                        {"cli": text, "expected": want, "error": str(err)[:160]},
                    )
                    continue
                except Exception as err:  # noqa: BLE001
                    ctx.violate(
                        f"C02|from_cli|{type(err).__name__}|{innermost_lib_frame(err)}",
                        "from_cli raises something other than CommandInvalid",
                        {"cli": text, "error": repr(err)[:160]},
                    )
                    continue
                if str(cmd) != want:
                    got_f, want_f = _fields(str(cmd)), _fields(want)
                    truncated = got_f[:6] == want_f[:6] and want_f[7].startswith(got_f[7])
                    why = "payload-truncated" if truncated else "print-differs"
                    ctx.violate(
                        f"C02|from_cli|{why}",
                        "Command.from_cli(short form) does not print the canonical long form of the same frame",
                        {"cli": text, "expected": want, "printed": str(cmd)},
                    )
        if i < 2:
            ctx.sample({"kind": "cli", "cli": text, "long": want})


async def log_session(loop: vloop.VirtualLoop, ctx, tmpdir: str, idx: int) -> None:
    from ramses_tx import exceptions as exc
    from ramses_tx.message import Message
    from ramses_tx.packet import PKT_LOGGER, Packet

    rng = ctx.rng
    frames = gen.corpus_frames()
    path = os.path.join(tmpdir, f"packet-{idx}.log")
    n = rng.randint(30, 60)
    air = airmod.Air(loop)
    first: list[tuple[str, str]] = []
    live_pkts: list[Any] = []
    replayed_pkts: list[Any] = []
    second: list[tuple[str, str]] = []
    sent: list[str] = []
    with clocks_patched():
        from ramses_rf import Gateway

        from .boundary import serial_patched

        port = air.add_port("18:006402")
        with serial_patched():
            # the three kinds of log file the library can be configured with: plain, rotated by size (a limit no
            # session reaches - it is the handler that differs), rotated at midnight
            log_mode = ("plain", "rotate_bytes", "rotate_backups")[(ctx.shard + idx) % 3]
            log_cfg = {"file_name": path, **({"rotate_bytes": 50_000_000} if log_mode == "rotate_bytes" else {"rotate_backups": 3} if log_mode == "rotate_backups" else {})}
            ctx.count(f"log.sessions.{log_mode}")
            gwy = Gateway(port.name, config={"disable_discovery": True}, packet_log=log_cfg)
            gwy.add_msg_handler(lambda m: (first.append((m._pkt.dtm.isoformat(timespec="microseconds"), str(m._pkt))), live_pkts.append(m._pkt)))
            await gwy.start()
        gwy._vrf_port = port
        for k in range(n):
            _, f = frames[rng.randrange(len(frames))]
            body = f[4:]
            r = gen.rssi(rng)
            kind = rng.random()
            note = ""
            if kind < 0.08:
                body = gen.mutate_frame(rng, f, 1)[4:]  # a corrupt line in the middle of the session
            elif kind < 0.14:
                note = " * Checksum error"
            elif kind < 0.2:
                note = rng.choice((" # evofw3 note", " # gain * 2", " # a < b # c", " # *"))
            same_read = rng.random() < 0.25
            if rng.random() < 0.15:  # a packet that arrives exactly on a whole second (all-zero microseconds)
                import math

                await asyncio.sleep(math.ceil(loop.time() + 1e-9) - loop.time())
            line = f"{r} {body}{note}"
            sent.append(line)
            if same_read and k + 1 < n:  # two frames in one read: same ms timestamp
                _, f2 = frames[rng.randrange(len(frames))]
                port.stage(f"{line}\r\n{f2}\r\n".encode("latin-1", errors="replace"))
                sent.append(f2)
            else:
                port.stage_line(line)
            await asyncio.sleep(rng.choice((0.0004, 0.001, 0.013, 0.25, 1.0, 3.7)))
            ctx.seen(f"log|{r if r in ('---', '...') else 'ddd'}|{note[:3]}|{same_read}")
        await asyncio.sleep(0.5)
        await harness.stop_gateway(gwy)
    for h in list(PKT_LOGGER.handlers):
        PKT_LOGGER.removeHandler(h)
        h.close()

    lines = gen.read_log(__import__("pathlib").Path(path))
    gwy2 = harness.file_gateway(lines, config={"disable_discovery": True})
    gwy2.add_msg_handler(lambda m: (second.append((m._pkt.dtm.isoformat(timespec="microseconds"), str(m._pkt))), replayed_pkts.append(m._pkt)))
    await asyncio.wait_for(gwy2.start(), timeout=60)
    await vloop.drain(loop)
    await gwy2.stop()

    ctx.ev()
    ctx.count("log.sessions")
    ctx.count("log.packets", len(first))
    if idx == 0:
        ctx.sample({"kind": "log-session", "sent": sent[:4], "first_log_lines": lines[:3], "delivered": len(first)})
    if len(first) < 5:
        ctx.inconclusive_because("log session delivered too few packets to be meaningful")
        return
    if [f for _, f in first] != [f for _, f in second]:
        ctx.violate(
            "C02|log-replay|frame-sequence-differs",
            "replaying the packet log does not deliver the frames the logging gateway delivered",
            {"live": [f for _, f in first][:6], "replayed": [f for _, f in second][:6], "n_live": len(first), "n_replayed": len(second)},
        )
        return
    # 'an equal packet': the packet object that was logged (and is still held by whoever received it) compares
    # equal to the one read back, in both directions, and still prints as the same frame
    for a, b in zip(live_pkts, replayed_pkts):
        ctx.count("log.objects_compared")
        try:
            ok = (a == b) and (b == a) and str(a) == str(b)
            why = "compares unequal"
            if ok and (a.comment or "").strip() != (b.comment or "").strip():
                ok, why = False, f"comment {a.comment!r} read back as {b.comment!r} ({log_mode} log)"
        except Exception as err:  # noqa: BLE001
            ok, why = False, f"comparison raised {type(err).__name__}: {err}"[:120]
        if not ok:
            ctx.violate(
                "C02|log-replay|logged-packet-not-equal-to-replayed-packet",
                "the packet object that was written to the log does not compare equal to the packet read back from the log",
                {"why": why, "replayed": str(b)},
            )
            break
    diffs = [(a, b) for a, b in zip(first, second) if a[0] != b[0]]
    if diffs:
        ctx.violate(
            "C02|log-replay|timestamp-differs",
            "a packet read back from the library's own packet log has a different timestamp than the packet that was logged",
            {"live": diffs[0][0], "replayed": diffs[0][1], "count": len(diffs), "of": len(first)},
        )
    ctx.info.setdefault("log_loop_unhandled", [])
    ctx.info["log_loop_unhandled"] += loop.unhandled[:2]


def run(ctx) -> None:
    part_frames(ctx)
    part_cli(ctx)
    tmpdir = tempfile.mkdtemp(prefix="vrf-c02-")
    try:
        n = 1 if ctx.quick else 25
        for i in range(n):
            vloop.run(log_session, ctx, tmpdir, i)
    finally:
        shutil.rmtree(tmpdir, ignore_errors=True)
        logging.getLogger("ramses_tx.packet_log").setLevel(logging.CRITICAL)
