"""OS-boundary doubles (DESIGN §2.2): serial port, MQTT client, clocks.

Only things outside the repository are replaced; the library's own transports,
protocols and gateways run unmodified on top of them.
"""

from __future__ import annotations

import contextlib
import os
from collections import deque
from collections.abc import Callable, Iterator
from typing import Any
from unittest.mock import patch

from . import vloop

_REGISTRY: dict[str, "FakeSerial"] = {}


class FakeSerial:
    """Duck-types serial.Serial for serial_asyncio.SerialTransport.

    A real pipe backs fileno() so loop.add_reader() works; each staged chunk is returned by
    exactly one read() call, so the read segmentation is fully controlled by the harness.
    """

    def __init__(self, on_write: Callable[["FakeSerial", bytes], None] | None = None) -> None:
        self._r, self._w = os.pipe()
        os.set_blocking(self._r, False)
        os.set_blocking(self._w, False)
        self.name = self.port = self.portstr = f"/proc/self/fd/{self._r}"
        self._chunks: deque[bytes | BaseException] = deque()
        self.writes: list[tuple[float, bytes]] = []
        self.on_write = on_write
        self.fail_writes: BaseException | None = None
        self.timeout: float | None = 0
        self.write_timeout: float | None = 0
        self.is_open = True
        self.in_waiting = 0
        self.out_waiting = 0
        self.reads = 0
        _REGISTRY[self.name] = self

    # -- harness side ---------------------------------------------------------------
    def stage(self, data: bytes | BaseException) -> None:
        """Make one read() return `data` (b'' = an empty read; an exception = a read error)."""
        if not self.is_open:
            return
        self._chunks.append(data)
        os.write(self._w, b".")

    def stage_line(self, line: str) -> None:
        self.stage(line.encode("latin-1") + b"\r\n")

    # -- serial.Serial side ---------------------------------------------------------
    def fileno(self) -> int:
        return self._r

    def read(self, size: int = 1) -> bytes:
        try:
            os.read(self._r, 1)
        except BlockingIOError:
            return b""
        self.reads += 1
        chunk = self._chunks.popleft()
        if isinstance(chunk, BaseException):
            raise chunk
        if len(chunk) > size:
            self._chunks.appendleft(chunk[size:])
            os.write(self._w, b".")
            chunk = chunk[:size]
        return chunk

    def write(self, data: bytes) -> int:
        if self.fail_writes is not None:
            raise self.fail_writes
        loop = vloop.current()
        self.writes.append((loop.time() if loop else 0.0, bytes(data)))
        if self.on_write:
            self.on_write(self, bytes(data))
        return len(data)

    def flush(self) -> None:
        pass

    def reset_input_buffer(self) -> None:
        pass

    def close(self) -> None:
        if self.is_open:
            self.is_open = False
            _REGISTRY.pop(self.name, None)
            if _REGISTRY.get(getattr(self, "alias", None)) is self:
                _REGISTRY.pop(self.alias, None)  # type: ignore[attr-defined]
            for fd in (self._r, self._w):
                with contextlib.suppress(OSError):
                    os.close(fd)


def _serial_for_url(url: str, *args: Any, **kwargs: Any) -> FakeSerial:
    try:
        return _REGISTRY[url]
    except KeyError:
        from serial import SerialException  # type: ignore[import-untyped]

        raise SerialException(f"no such fake port: {url}") from None


@contextlib.contextmanager
def serial_patched() -> Iterator[None]:
    """Route the library's serial_for_url()/comports() to the fake ports (same seam as the repo's tests)."""
    with (
        patch("ramses_tx.transport.serial_for_url", _serial_for_url),
        patch("ramses_tx.transport.comports", lambda *a, **k: []),
    ):
        yield


# ---------------------------------------------------------------------- clocks
@contextlib.contextmanager
def clocks_patched(
    *, transport_dt_now: bool = True, entity_dt: bool = True, perf_counter: bool = False, transport_dt: bool = False
) -> Iterator[None]:
    """Bind the wall clocks the library reads to the virtual clock of the running loop.

    `ramses_tx.protocol_fsm.dt` is deliberately left alone (queue tie-break only).
    """
    VDT = vloop.make_virtual_datetime(vloop.current)

    def dt_now():  # type: ignore[no-untyped-def]
        return VDT.now()

    def vperf() -> float:
        loop = vloop.current()
        return loop.time() if loop else 0.0

    with contextlib.ExitStack() as stack:
        if transport_dt_now:
            stack.enter_context(patch("ramses_tx.transport.dt_now", dt_now))
            stack.enter_context(patch("ramses_tx.helpers.dt_now", dt_now))
        if entity_dt:
            for mod in (
                "ramses_rf.entity_base",
                "ramses_rf.system.heat",
                "ramses_rf.system.zones",
                "ramses_rf.device.heat",
                "ramses_rf.device.base",
                "ramses_tx.packet",
                "ramses_tx.gateway",
            ):
                with contextlib.suppress(AttributeError, ModuleNotFoundError):
                    stack.enter_context(patch(f"{mod}.dt", VDT))
        if perf_counter:
            stack.enter_context(patch("ramses_tx.transport.perf_counter", vperf))
        if transport_dt:  # the transport's own datetime reads (its Tx-rate statistics window)
            stack.enter_context(patch("ramses_tx.transport.dt", VDT))
        yield


# ---------------------------------------------------------------------- MQTT
class FakeMqttMessage:
    def __init__(self, topic: str, payload: bytes) -> None:
        self.topic, self.payload, self.timestamp = topic, payload, 0.0


class FakeMqttClient:
    """Stands in for paho.mqtt.client.Client inside ramses_tx.transport."""

    instances: list["FakeMqttClient"] = []

    def __init__(self, *args: Any, **kwargs: Any) -> None:
        self.on_connect = self.on_disconnect = self.on_message = None
        self.published: list[tuple[float, str, str]] = []
        self.subscriptions: list[str] = []
        self.fail_publish: BaseException | None = None
        FakeMqttClient.instances.append(self)

    def username_pw_set(self, *a: Any, **k: Any) -> None:
        pass

    def connect_async(self, *a: Any, **k: Any) -> None:
        pass

    def loop_start(self) -> None:
        pass

    def loop_stop(self) -> None:
        pass

    def disconnect(self) -> None:
        pass

    def subscribe(self, topic: str, qos: int = 0) -> None:
        self.subscriptions.append(topic)

    def unsubscribe(self, topic: str) -> None:
        pass

    def publish(self, topic: str, payload: str | None = None, qos: int = 0) -> Any:
        if self.fail_publish is not None:
            raise self.fail_publish
        loop = vloop.current()
        self.published.append((loop.time() if loop else 0.0, topic, payload or ""))
        return object()

    # harness side
    def deliver(self, topic: str, payload: bytes) -> None:
        assert self.on_message is not None
        self.on_message(self, None, FakeMqttMessage(topic, payload))


@contextlib.contextmanager
def mqtt_patched() -> Iterator[None]:
    import ramses_tx.transport as tr

    def topic_matches_sub(sub: str, topic: str) -> bool:  # as paho's: '+' one level, '#' the rest
        a, b = sub.split("/"), topic.split("/")
        for i, part in enumerate(a):
            if part == "#":
                return True
            if i >= len(b) or (part != "+" and part != b[i]):
                return False
        return len(a) == len(b)

    class _FakeModule:
        Client = FakeMqttClient
        MQTTMessage = FakeMqttMessage
        MQTTMessageInfo = object

    _FakeModule.topic_matches_sub = staticmethod(topic_matches_sub)  # type: ignore[attr-defined]

    with patch.object(tr, "mqtt", _FakeModule):
        yield
