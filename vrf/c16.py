"""C16 — saved state restores: snapshot -> fresh gateway -> snapshot is a fix-point.

Gateway A (file-sourced, or on a fake serial port under the virtual clock) is fed a history
derived from the recorded logs; at seeded prefixes and at the end a snapshot (schema, packets) is
taken.  Monitors:

 (1) content  : every snapshot line is accepted by Packet.from_dict + Message(); no RQ; no W other
                than 0404; with include_expired=False no packet that is expired on the gateway's own
                clock (the deliberate 313F exception is a recorded finding);
 (2) fixpoint : a *fresh* gateway B built the way a restarting application does it
                (Gateway(**schema) + start(cached_packets=packets)), with the clock where it was,
                gives back the identical packet dict and - eavesdropping off - the identical
                schema;
 (3) idempotence : restoring the same snapshot again into B, and into A (which already holds the
                state), changes neither packets nor schema.
"""

from __future__ import annotations

import asyncio
import os
from typing import Any

from . import air as airmod, harness, hist, vloop
from .boundary import clocks_patched
from .c13 import GWY_ID, Rig
from .mon import innermost_lib_frame

PID = "C16"
LEVEL = "exploration"
SHARDS = {"quick": 16, "thorough": 16}
WALL_LIMIT = {"quick": 900, "thorough": 5400}
RULE = (
    "histories as in C13 (recorded log window x delete/duplicate/reorder/splice/mutate, re-timed); snapshots "
    "with include_expired on/off at seeded prefixes and at the end; restart path = fresh Gateway(**schema) + "
    "start(cached_packets); file gateways and port gateways (virtual clock, incl. two frames in one serial read). "
    "Distinct = (base log, operation set, foreign log, stack, eavesdrop, include_expired)."
)
ASSUMPTIONS = [
    "histories carry unique, increasing timestamps (the snapshot is keyed by timestamp; a real receiver stamps packets on arrival)",
    "the fresh gateway is given the snapshot's own schema and the same config/known_list as the original, as a restarting application does",
    "port stack: both gateways live on one virtual clock; the fresh one needs ~0.3 virtual seconds to start, so a device may drop out of a presence-based orphan list in between (shrinkage of those lists only is tolerated)",
    "a packet = (timestamp, frame text); the '# header (context)' annotation in the snapshot line is derived data and not compared",
    "expired packets are purged lazily, so a snapshot may lose (never gain or alter) packets that are expired on the gateway's clock without that being a change of state",
    "the schema clause is judged with eavesdropping off only (as the statement says) and on the port stack only (a fresh file gateway has no clock of its own: its 'now' is the last packet its own transport read)",
    "the port gateway's own start-up signature packet (7FFF from its own id), heard live by each stick, is not part of the restored state",
]
REQUIRED = {"histories": 16, "snapshots": 40, "lines.decoded": 1000, "fixpoint.compared": 40, "idempotence.compared": 40, "expired.checked": 200, "port.histories": 8, "fixpoint.schema_compared": 20}


def same_schema_modulo_ageing(before: dict[str, Any], after: dict[str, Any], pkts: dict[str, str] | None = None) -> bool:
    """Equal, or differing only by devices that dropped out of a presence-based orphan list.

    The fresh gateway needs some hundred milliseconds of (virtual) time to start up and restore, so its
    schema is read slightly later than the original's; a device whose last message crosses its expiry
    threshold in between legitimately leaves the 'orphans' lists (they list devices *present* now).
    Nothing may be gained, and nothing else may differ.
    """
    if before == after:
        return True

    def strip(s: dict[str, Any], drop: dict[str, set[str]]) -> dict[str, Any]:
        out = {}
        for k, v in s.items():
            if k.startswith("orphans"):
                out[k] = [d for d in v if d not in drop.get(k, set())]
            elif isinstance(v, dict) and "orphans" in v:
                out[k] = {**v, "orphans": [d for d in v["orphans"] if d not in drop.get(k, set())]}
            else:
                out[k] = v
        return {k: v for k, v in out.items() if v not in ([], {}, None)}

    drop: dict[str, set[str]] = {}
    for k, v in before.items():
        if k.startswith("orphans"):
            drop[k] = set(v) - set(after.get(k, []))
        elif isinstance(v, dict) and "orphans" in v:
            drop[k] = set(v["orphans"]) - set((after.get(k) or {}).get("orphans", []))
    if pkts is not None:
        # only a device that the snapshot shows *present* (an I / RP of its own that can have aged meanwhile) may
        # drop out: one listed without any such packet cannot come back from the snapshot at all
        heard = {ln.split(" ")[-6] if len(ln.split(" ")) > 6 else "" for ln in pkts.values() if ln[4:6] in (" I", "RP")}
        heard |= {ln.split(" ")[-4] for ln in pkts.values() if ln[4:6] in (" I", "RP") and len(ln.split(" ")) > 6 and ln.split(" ")[-6][:2] == "--"}
        for k in drop:
            drop[k] = {d for d in drop[k] if d in heard}
    return strip(before, drop) == strip(after, {})


def only_addressee_held(first: dict[str, str], second: dict[str, str]) -> bool:
    """The recorded finding's mechanism, and nothing else: every lost packet is an I / RP addressed to a device (not a
    gateway, not a broadcast) that is the source of no packet in the snapshot - so after a restart that device does not
    exist (eavesdropping apart) - and nothing was gained or altered."""
    if any(k not in first or first[k] != v for k, v in second.items()):
        return False
    sources = {ln.split(" ")[-6] for ln in first.values() if len(ln.split(" ")) > 6}
    sources |= {ln.split(" ")[-4] for ln in first.values() if len(ln.split(" ")) > 6 and ln.split(" ")[-6][:2] == "--"}
    lost = [v for k, v in first.items() if k not in second]
    for ln in lost:
        p = ln.split(" ")
        if len(p) < 7 or ln[4:6] not in (" I", "RP"):
            return False
        dst = p[-5]
        if dst[:2] in ("18", "63", "--") or dst == p[-6] or dst in sources:
            return False
    return bool(lost)


def diff_pkts(a: dict[str, str], b: dict[str, str]) -> dict[str, Any]:
    only_a = {k: a[k] for k in list(a)[:400] if k not in b}
    only_b = {k: b[k] for k in list(b)[:400] if k not in a}
    changed = {k: (a[k], b[k]) for k in a if k in b and a[k] != b[k]}
    return {
        "only_in_first": dict(list(only_a.items())[:4]),
        "only_in_second": dict(list(only_b.items())[:4]),
        "changed": dict(list(changed.items())[:3]),
        "sizes": [len(a), len(b)],
    }


def code_of(line: str) -> str:
    return line[41:45]


def joined_keys(gwy) -> set[str]:
    """Timestamps of stored messages whose payload is not what their own packet decodes to (live-joined halves)."""
    from ramses_tx.message import Message
    from ramses_tx.packet import Packet

    out: set[str] = set()
    msgs = [m for d in gwy.devices for m in d._msg_db]
    for tcs in gwy.systems:
        msgs += list(tcs._msgs.values()) + [m for z in tcs.zones for m in z._msgs.values()]
    for m in msgs:
        if m.code not in ("000A", "22C9") or m.verb != " I":
            continue
        key = m._pkt.dtm.isoformat(timespec="microseconds")
        try:
            alone = Message(Packet.from_dict(key, repr(m._pkt)[27:])).payload
        except Exception:  # noqa: BLE001
            continue
        if alone != m.payload:
            out.add(key)
            out.add(f"{m.code}|{m.src.id}")  # ... and: this source has a joined message of this code
    return out


def only_array_halves_merged(first: dict[str, str], second: dict[str, str], joined: set[str] = frozenset(), fed: list[tuple[str, str]] | None = None) -> bool:
    """True if `second` is `first` minus array halves that a restore re-joins (recorded finding).

    The library joins a 000A/22C9 ' I' to the preceding ' I' of the same code and source when they are
    less than 3 s apart (detect_array_fragment).  Live, a packet that is not saved (an RQ, a W, a
    superseded one) may have arrived between the two halves, so both were kept; restored, they are
    adjacent and the second absorbs the first (with three relatives in a row the joins chain).  Only that
    pattern is recognised here: a lost packet of those codes that had a relative - an ' I' of the same code
    and source - less than 3 s away in the snapshot it was lost from, or that the live gateway holds as a
    joined message (more elements than its own packet carries: its first half is no longer in the snapshot).
    """
    import datetime as _dt

    if any(k not in first or first[k] != v for k, v in second.items()):
        return False
    lost = {k: v for k, v in first.items() if k not in second}
    if not lost:
        return False
    for k, v in lost.items():
        if code_of(v) not in ("000A", "22C9") or v[4:6] != " I":
            return False
        if k in joined:  # live, this message had absorbed an earlier half that the snapshot no longer holds
            continue
        if f"{code_of(v)}|{v[11:20]}" in joined:
            # a *surviving* message of this code and source is joined in the live gateway: restored without
            # its other half it decodes to a different context and displaces this packet from its slot
            continue
        t0 = _dt.datetime.fromisoformat(k)
        if fed and sum(  # when it was received it had a relative less than 3 s away on the wire (itself excluded)
            1 for tf, f in fed if f[41:45] == code_of(v) and f[4:6] == " I" and f[11:20] == v[11:20] and abs((_dt.datetime.fromisoformat(tf) - t0).total_seconds()) < 3.0
        ) >= 2:
            continue
        if not any(  # a relative (same code, same source, ' I') less than 3 s away, on either side
            k2 != k and code_of(v2) == code_of(v) and v2[4:6] == " I" and v2[11:20] == v[11:20] and abs((_dt.datetime.fromisoformat(k2) - t0).total_seconds()) < 3.0
            for k2, v2 in first.items()
        ):
            return False
    return True


def lost_to_slot_inversion(first: dict[str, str], second: dict[str, str], fed: list[tuple[str, str]] | None) -> bool:
    """True if `second` is `first` minus packets P for which the history fed a packet of the same slot (same
    sender, verb, code and array-ness) with a *later stamp, earlier*: in a log that is not in timestamp order the
    live gateway keeps what arrived last and a restore (which replays by stamp) what is stamped last - holders that
    take different routes may keep both live, none can after the restore.  That is the disordered history's doing
    (histories in timestamp order cannot produce it), so it is not held against the restore."""
    if not fed or any(k not in first or first[k] != v for k, v in second.items()):
        return False

    def slot(frame: str) -> tuple[str, str, str, bool] | None:
        p = frame.split("#")[0].split()
        if len(p) < 8:
            return None
        verb = p[0] if p[0] in ("I", "W", "RQ", "RP") else p[1] if len(p) > 8 else p[0]
        src = next((a for a in p[-6:-3] if not a.startswith("--")), "")
        return (src, verb, p[-3], len(p[-1]) > 6 and p[-3] in ("30C9", "2309", "000A", "22C9", "3150", "0009", "2249"))

    order = [(d, slot(f)) for d, f in fed]
    for k, v in first.items():
        if k in second:
            continue
        me = slot(v.replace("... ", "", 1))
        at = next((i for i, (d, _) in enumerate(order) if d == k), None)
        if me is None or at is None or not any(sl == me and d > k for d, sl in order[:at]):
            return False
    return True


def ref_expired(gwy, msg) -> bool | None:
    """Is the message expired on the gateway's clock - by the committed lifetime table (the one C14 part A
    holds the library to), not by the library's own say-so.  None: the table does not cover this kind."""
    from .c14 import lifetime_of

    life, known = lifetime_of(msg._pkt)
    if not known:
        return None
    if life is None:
        return False
    age = (gwy._dt_now() - msg.dtm).total_seconds() - 3.0
    return age > 0 if life == 0 else age / life >= 2.0


def is_expired(gwy, msg) -> bool:
    msg._gwy = gwy
    ref = ref_expired(gwy, msg)
    return bool(msg._expired) if ref is None else ref


def content_check(ctx, gwy, pkts: dict[str, str], include_expired: bool, meta: dict[str, Any]) -> None:
    from ramses_tx.message import Message
    from ramses_tx.packet import Packet

    for dtm, line in pkts.items():
        ctx.count("lines.decoded")
        try:
            pkt = Packet.from_dict(dtm, line)
            msg = Message(pkt)
        except Exception as err:  # noqa: BLE001
            ctx.violate(
                f"C16|content|decoder-rejects|{code_of(line)}|{type(err).__name__}",
                "a snapshot contains a packet the decoder rejects",
                {"dtm": dtm, "line": line, "error": repr(err)[:160], "history": meta},
            )
            continue
        if msg.verb == "RQ" or (msg.verb == " W" and msg.code != "0404"):
            ctx.violate(
                f"C16|content|{'request' if msg.verb == 'RQ' else 'write'}-in-snapshot|{msg.code}",
                "a snapshot contains a request, or a write that is not a schedule fragment",
                {"dtm": dtm, "line": line, "history": meta},
            )
        if not include_expired:
            ctx.count("expired.checked")
            msg._gwy = gwy
            try:
                expired = msg._expired
            except Exception:  # noqa: BLE001  (C13/C14 subject)
                continue
            ref = ref_expired(gwy, msg)
            ctx.count("expired.checked.by_table" if ref is not None else "expired.checked.library_only")
            if expired or ref:
                ctx.violate(
                    f"C16|content|expired-packet|{msg.code}",
                    "a snapshot taken without include_expired contains a packet that is expired on the gateway's clock",
                    {"dtm": dtm, "line": line, "now": str(gwy._dt_now()), "history": meta},
                )


def snap(gwy, include_expired: bool) -> tuple[dict[str, Any], dict[str, str]]:
    from ramses_rf.helpers import shrink

    schema, pkts = gwy.get_state(include_expired=include_expired)
    gwy._vrf_raw_schema = schema  # the snapshot's schema exactly as returned (what an application saves)
    # a port gateway hears its own stick's start-up signature live: that is not restored state
    own = getattr(gwy.hgi, "id", None)
    pkts = {k: v for k, v in pkts.items() if not (own and code_of(v) == "7FFF" and v[11:20] == own)}
    gwy._vrf_raw_pkts = dict(pkts)  # with the '# header' annotation, as an application stores them
    # a packet is its timestamp and frame; the trailing '# header (context)' is a derived annotation
    return shrink(schema), {k: v.split(" # ")[0].rstrip() for k, v in pkts.items()}


def lost_only_expired(gwy, first: dict[str, str], second: dict[str, str]) -> bool:
    """True if `second` is `first` minus packets that are expired on the gateway's clock.

    Expired packets are purged lazily (when a view next looks at them), so whether a snapshot taken
    with include_expired=True still lists one depends on what was read meanwhile: losing one is not a
    change of state.  Gaining or altering a packet always is.
    """
    from ramses_tx.message import Message
    from ramses_tx.packet import Packet

    if any(k not in first or first[k] != v for k, v in second.items()):
        return False
    for k, v in first.items():
        if k in second:
            continue
        try:
            msg = Message(Packet.from_dict(k, v))
            if not is_expired(gwy, msg):
                return False
        except Exception:  # noqa: BLE001
            return False
    return True


async def fresh_gateway(loop, rig: Rig, schema: dict[str, Any], pkts: dict[str, str], cfg: dict[str, Any]):
    import copy

    lists = copy.deepcopy({k: v for k, v in rig.lists.items() if k != "mode" and v})
    """The restart path: a new Gateway configured with the saved schema, started with the cache."""
    from ramses_rf import Gateway

    if rig.stack == "file":
        import io

        fh = io.TextIOWrapper(io.BytesIO(b""), encoding="utf-8")
        gwy = Gateway(None, input_file=fh, config=dict(cfg), **lists, **schema)
        await asyncio.wait_for(gwy.start(cached_packets=dict(pkts)), timeout=600)
    else:
        assert rig.air is not None
        air_b = airmod.Air(loop)  # its own air: the original must not overhear the fresh stick's signature
        gwy = await harness.start_port_gateway(loop, air_b, GWY_ID, config=dict(cfg), start_kwargs={"cached_packets": dict(pkts)}, **lists, **schema)
    await vloop.drain(loop, 10)
    return gwy


async def stop(gwy, stack: str) -> None:
    if stack == "file":
        try:
            await asyncio.wait_for(gwy.stop(), timeout=5)
        except Exception:  # noqa: BLE001
            pass
    else:
        await harness.stop_gateway(gwy)


async def check_snapshot(loop, ctx, rig: Rig, include_expired: bool, meta: dict[str, Any], cfg: dict[str, Any]) -> None:
    gwy_a = rig.gwy
    try:
        schema_a, pkts_a = snap(gwy_a, include_expired)
    except Exception as err:  # noqa: BLE001  (C13's subject; nothing to compare here)
        ctx.count("snapshot.raised")
        ctx.info.setdefault("snapshot_raised", []).append(f"{type(err).__name__}@{innermost_lib_frame(err)}")
        return
    ctx.count("snapshots")
    content_check(ctx, gwy_a, pkts_a, include_expired, meta)
    joined_a = joined_keys(gwy_a)

    try:
        gwy_b = await fresh_gateway(loop, rig, gwy_a._vrf_raw_schema, gwy_a._vrf_raw_pkts, cfg)
    except Exception as err:  # noqa: BLE001
        import voluptuous as vol

        if isinstance(err, vol.Invalid):  # the reported schema is not accepted by the validator: C15's subject
            ctx.count("restart.schema_rejected_by_validator")
            return
        ctx.violate(
            f"C16|restart|fresh-gateway-failed|{type(err).__name__}|{innermost_lib_frame(err)}",
            "a fresh gateway could not be built/started from the snapshot's own schema and packets",
            {"error": repr(err)[:240], "schema": schema_a, "history": meta},
        )
        return
    # a file gateway's clock is the timestamp of the last packet its *own* transport read, so a fresh
    # file gateway has no meaningful "now" (1970): presence/expiry - hence the schema's orphan lists -
    # cannot be compared there.  The schema clause is judged on the port stack (one virtual clock).
    judge_schema = (not rig.eavesdrop) and rig.stack == "port"
    try:
        schema_b, pkts_b = snap(gwy_b, include_expired)
        ctx.count("fixpoint.compared")
        if judge_schema:
            ctx.count("fixpoint.schema_compared")
        if pkts_b != pkts_a and lost_only_expired(gwy_b, pkts_a, pkts_b):
            ctx.count("fixpoint.expired_purged")
        elif pkts_b != pkts_a and only_array_halves_merged(pkts_a, pkts_b, joined_a, rig.fed):
            ctx.violate("C16|fixpoint|array-halves-rejoined-on-restore", "two halves of an array (000A/22C9) that were kept apart live are joined when restored: the snapshot loses a packet", {"diff": diff_pkts(pkts_a, pkts_b), "stack": rig.stack, "history": meta})
        elif pkts_b != pkts_a and "disorder" in meta.get("ops", ()) and not os.environ.get("VERIF_NO_SLOT_TOL") and lost_to_slot_inversion(pkts_a, pkts_b, rig.fed):
            ctx.count("fixpoint.slot_inversion_of_a_disordered_log")
        elif pkts_b != pkts_a and only_addressee_held(pkts_a, pkts_b):
            ctx.violate(
                "C16|fixpoint|reply-held-only-by-its-addressee-lost-on-restore",
                "a reply addressed to a device is kept (and saved) by that device alone once its sender has a newer one; restored into a gateway where the addressee does not exist it is kept by nobody",
                {"diff": diff_pkts(pkts_a, pkts_b), "stack": rig.stack, "history": meta},
            )
        elif pkts_b != pkts_a:
            d = diff_pkts(pkts_a, pkts_b)
            codes = sorted({code_of(v) for v in list(d["only_in_first"].values()) + list(d["only_in_second"].values())} | {code_of(v[0]) for v in d["changed"].values()})
            ctx.violate(
                f"C16|fixpoint|packets-differ|{'lost' if d['only_in_first'] else ''}{'gained' if d['only_in_second'] else ''}{'changed' if d['changed'] else ''}|{','.join(codes[:3])}",
                "snapshot -> fresh gateway -> snapshot does not give back the same packets",
                {"diff": d, "include_expired": include_expired, "stack": rig.stack, "history": meta},
            )
        if judge_schema and not same_schema_modulo_ageing(schema_a, schema_b, pkts_a):
            ctx.violate(
                "C16|fixpoint|schema-differs",
                "snapshot -> fresh gateway -> snapshot does not give back the same schema (eavesdropping off)",
                {"before": schema_a, "after": schema_b, "stack": rig.stack, "history": meta},
            )
        # (3) again into B, and into A itself
        for name, g, ref_schema, ref_pkts in (("fresh", gwy_b, schema_b, pkts_b), ("original", gwy_a, schema_a, pkts_a)):
            try:
                await asyncio.wait_for(g._restore_cached_packets(dict(gwy_a._vrf_raw_pkts)), timeout=600)
                at_once = snap(g, include_expired)[1]  # a snapshot in the very loop iteration in which the restore returned
                await vloop.drain(loop, 10)
                schema_c, pkts_c = snap(g, include_expired)
                ctx.count("idempotence.snapshots_at_once")
                if set(pkts_c) - set(at_once):
                    ctx.violate(
                        f"C16|idempotence|state-incomplete-when-restore-returns|{name}",
                        "a snapshot taken as soon as the restore has returned lacks packets that a snapshot a moment later holds (the restore returned before its last packets were taken in)",
                        {"missing_at_once": sorted(set(pkts_c) - set(at_once))[:4], "stack": rig.stack, "history": meta},
                    )
            except Exception as err:  # noqa: BLE001
                ctx.count("idempotence.raised")
                ctx.info.setdefault("idempotence_raised", []).append(f"{type(err).__name__}@{innermost_lib_frame(err)}")
                continue
            ctx.count("idempotence.compared")
            if pkts_c != ref_pkts and lost_only_expired(g, ref_pkts, pkts_c):
                ctx.count("idempotence.expired_purged")
            elif pkts_c != ref_pkts and only_array_halves_merged(ref_pkts, pkts_c, joined_a, rig.fed):
                ctx.violate("C16|fixpoint|array-halves-rejoined-on-restore", "two halves of an array (000A/22C9) that were kept apart live are joined when restored: the snapshot loses a packet", {"diff": diff_pkts(ref_pkts, pkts_c), "stack": rig.stack, "history": meta})
            elif pkts_c != ref_pkts and "disorder" in meta.get("ops", ()) and not os.environ.get("VERIF_NO_SLOT_TOL") and lost_to_slot_inversion(ref_pkts, pkts_c, rig.fed):
                ctx.count("idempotence.slot_inversion_of_a_disordered_log")
            elif pkts_c != ref_pkts:
                d = diff_pkts(ref_pkts, pkts_c)
                codes = sorted({code_of(v) for v in list(d["only_in_first"].values()) + list(d["only_in_second"].values())} | {code_of(v[0]) for v in d["changed"].values()})
                ctx.violate(
                    f"C16|idempotence|packets-differ|{name}|{','.join(codes[:3])}",
                    f"restoring the same snapshot again into the {name} gateway changed its packets",
                    {"diff": d, "include_expired": include_expired, "stack": rig.stack, "history": meta},
                )
            if judge_schema and not same_schema_modulo_ageing(ref_schema, schema_c):
                ctx.violate(
                    f"C16|idempotence|schema-differs|{name}",
                    f"restoring the same snapshot again into the {name} gateway changed its schema (eavesdropping off)",
                    {"before": ref_schema, "after": schema_c, "stack": rig.stack, "history": meta},
                )
    finally:
        await stop(gwy_b, rig.stack)


def gen_lists(rng, lines: list[tuple[str, str]], eavesdrop: bool) -> tuple[dict[str, Any], dict[str, Any]]:
    """Gateway configuration: device lists as applications really have them."""
    ids = sorted({a for _, f in lines for a in f[11:40].split(" ") if a[:2].isdigit() and a[:2] not in ("18", "63")})
    mode = rng.choice(("none", "none", "partial+hgi", "full+hgi+enforced", "partial", "block"))
    cfg: dict[str, Any] = {"disable_discovery": True, "enable_eavesdrop": eavesdrop}
    known: dict[str, Any] = {}
    block: dict[str, Any] = {}
    if mode in ("partial+hgi", "partial"):
        known = {i: {} for i in ids if rng.random() < 0.5}
    elif mode == "full+hgi+enforced":
        known = {i: {} for i in ids}
        cfg["enforce_known_list"] = True
    elif mode == "block" and ids:
        block = {rng.choice(ids): {}}
    if "hgi" in mode:
        known[GWY_ID] = {"class": "HGI"}
    return cfg, {"mode": mode, "known_list": known, "block_list": block}


async def feed_double(loop, rig: Rig, f1: str, f2: str, dtm: str = "") -> None:
    """Two frames in one serial read: one read() call returns both lines."""
    rig.trail += [f1, f2]
    await rig.wait_gap(dtm)
    now = loop.now_dt().isoformat(timespec="microseconds")
    rig.fed += [(now, f1), (now, f2)]
    rig.gwy._vrf_port.stage((f1 + "\r\n" + f2 + "\r\n").encode("latin-1"))
    await asyncio.sleep(0.02)
    await vloop.drain(loop, 6)


async def run_history(loop: vloop.VirtualLoop, ctx, h: hist.History, stack: str, eavesdrop: bool, trial: int) -> None:
    rng = ctx.rng
    lines = h.lines
    cfg, lists = gen_lists(rng, lines, eavesdrop)
    rig = Rig(loop, ctx, stack, eavesdrop, cfg=cfg, lists=lists)
    await rig.start()
    ctx.count(f"lists.{lists['mode']}")
    n_snaps = rng.choice((0, 1)) if ctx.quick else rng.choice((1, 2, 3))
    at = set(rng.sample(range(len(lines)), min(n_snaps, len(lines)))) | {len(lines) - 1}
    checked: list[list[Any]] = []
    i = 0
    doubles: list[int] = []
    while i < len(lines):
        dtm, frame = lines[i]
        if stack == "port" and i + 1 < len(lines) and rng.random() < 0.2:
            doubles.append(i)
            await feed_double(loop, rig, frame, lines[i + 1][1], lines[i + 1][0])
            ctx.count("port.double_reads")
            step = 2
        else:
            await rig.feed(dtm, frame)
            step = 1
        if any(j in at for j in range(i, i + step)):
            include_expired = rng.random() < 0.5
            meta = dict(h.meta, shard=ctx.shard, trial=trial, lists=lists, full_gaps=rig.full_gaps, prefix=i + step, of=len(lines), eavesdrop=eavesdrop, stack=stack, include_expired=include_expired, double_reads_at=list(doubles), earlier_snapshots=list(checked), packets=[f"{d} {f}" for d, f in lines[: i + step]])
            checked.append([i + step, include_expired])  # (a snapshot check restores into the original gateway too: part of its history)
            await check_snapshot(loop, ctx, rig, include_expired, meta, cfg)
            ctx.seen(f"{h.sig()}|{stack}|{int(eavesdrop)}|{int(include_expired)}")
        i += step
    ctx.ev()
    ctx.count("histories")
    ctx.count(f"{stack}.histories")
    if trial < 1:
        ctx.sample({"history": h.meta, "stack": stack, "eavesdrop": eavesdrop, "packets": len(lines), "snapshots_at": sorted(at), "first": lines[0][1]})
    await rig.stop()


def run(ctx) -> None:
    rng = ctx.rng
    n = 80 if ctx.quick else 800
    homes = hist.home_logs()
    for trial in range(n):
        stack = "file" if trial % 3 == 2 else "port"
        base = homes[(ctx.shard + trial * ctx.nshards) % len(homes)] if trial < len(homes) else None
        h = hist.build(rng, max_len=60 if ctx.quick else 160, base=base)
        if stack == "file" and rng.random() < 0.4:  # a packet log that is not in timestamp order
            h = hist.History(hist.disorder(rng, h.lines, h.meta), h.meta)
            ctx.count("histories.disordered_log")
        eavesdrop = rng.random() < 0.3
        harness.reset_transport_globals()

        async def go(loop, h=h, stack=stack, eavesdrop=eavesdrop, trial=trial):
            with clocks_patched(entity_dt=(stack == "port")), harness.on_demand_write_spacer():
                await run_history(loop, ctx, h, stack, eavesdrop, trial)

        try:
            vloop.run(go)
        except vloop.Starved as err:
            ctx.inconclusive_because(f"history starved the virtual clock: {err} ({h.sig()})")


def replay(data: dict[str, Any]) -> int:
    """Re-run the witnesses of a replay file: feed the recorded packets, snapshot, restart, compare."""
    from .common import Ctx

    bad = 0
    for w in data.get("witnesses", []):
        meta = w.get("history") or {}
        pkts = meta.get("packets")
        if not pkts:
            print("witness carries no packet list:", str(w)[:300])
            continue
        lines = [(p[:26], p[27:]) for p in pkts]
        ctx = Ctx(PID, "quick", 0, 0, 1)
        harness.reset_transport_globals()

        async def go(loop, lines=lines, meta=meta, ctx=ctx):
            with clocks_patched(entity_dt=(meta["stack"] == "port")), harness.on_demand_write_spacer():
                lists = meta.get("lists") or {"mode": "none", "known_list": {}, "block_list": {}}
                cfg = {"disable_discovery": True, "enable_eavesdrop": meta["eavesdrop"]}
                if lists["mode"] == "full+hgi+enforced":
                    cfg["enforce_known_list"] = True
                rig = Rig(loop, ctx, meta["stack"], meta["eavesdrop"], cfg=cfg, lists=lists)
                rig.full_gaps = meta.get("full_gaps", True)
                await rig.start()
                doubles = set(meta.get("double_reads_at", ()))
                earlier = {int(k): bool(v) for k, v in meta.get("earlier_snapshots", [])}
                scratch = Ctx(PID, "quick", 0, 0, 1)
                i = 0
                while i < len(lines):
                    if i in doubles and i + 1 < len(lines):
                        await feed_double(loop, rig, lines[i][1], lines[i + 1][1], lines[i + 1][0])
                        i += 2
                    else:
                        await rig.feed(*lines[i])
                        i += 1
                    if i in earlier:  # the snapshot checks made on the way (they restore into this gateway)
                        await check_snapshot(loop, scratch, rig, earlier[i], {"x": 1}, cfg)
                await check_snapshot(loop, ctx, rig, meta.get("include_expired", False), {k: v for k, v in meta.items() if k != "packets"}, cfg)
                await rig.stop()

        vloop.run(go)
        for k, v in ctx.violations.items():
            print("REPRODUCED", k, "-", v["what"])
            bad += 1
        if not ctx.violations:
            print("not reproduced")
    return bad
