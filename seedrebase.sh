#!/bin/bash
# usage: seedrebase.sh <seed-name> [checks...]   e.g. seedrebase.sh C08-r2a C08
# A kept seed whose patch no longer applies to /repo HEAD (context moved by later fix: commits) is re-made by a
# 3-way apply in a scratch worktree; the demo must still fail with it and pass without it; then the checks are run.
set -u
name="$1"; shift
checks=("$@"); [ ${#checks[@]} -eq 0 ] && checks=("${name%%-*}")
dir=/verif/seeded/$name
wt=$(mktemp -d /tmp/wtr-XXXXXX); rmdir "$wt"
git -C /repo worktree add -q --detach "$wt" HEAD || exit 2
trap 'git -C /repo worktree remove --force "$wt" 2>/dev/null; rm -rf "$wt"' EXIT
if git -C "$wt" apply --check "$dir/patch.diff" 2>/dev/null; then echo "$name: applies as it is"; exit 0; fi
(cd "$wt" && PYTHONPATH="$wt/src" timeout 300 /venv/bin/python "$dir/demo.py" >/dev/null 2>&1); dc=$?
if ! git -C "$wt" apply --3way "$dir/patch.diff" >/tmp/seedrebase.log 2>&1 || grep -q "with conflicts" /tmp/seedrebase.log; then
  echo "$name: 3-way apply has conflicts - needs a hand"; cat /tmp/seedrebase.log | tail -3; exit 1
fi
git -C "$wt" diff HEAD > /tmp/seedrebase.diff
(cd "$wt" && PYTHONPATH="$wt/src" timeout 300 /venv/bin/python "$dir/demo.py" >/dev/null 2>&1); ds=$?
echo "$name: demo on clean tree exit $dc, on re-made seed exit $ds"
if [ "$dc" != "0" ] || [ "$ds" = "0" ]; then echo "$name: demo no longer separates - not replaced"; exit 1; fi
cp /tmp/seedrebase.diff "$dir/patch.diff"
python3 - "$dir/meta.json" "$(git -C /repo rev-parse --short HEAD)" <<'PY'
import json,sys
p,h=sys.argv[1:3]; d=json.load(open(p)); d["rebased_on"]=h
d["rebased"]="patch.diff re-made by a 3-way apply (context moved by later fix: commits; same change), demo re-confirmed"
json.dump(d,open(p,"w"),indent=1)
PY
for c in "${checks[@]}"; do /verif/seedtest.sh "$dir/patch.diff" "$c" | head -2 | cut -c1-200; done
