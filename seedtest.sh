#!/bin/sh
# usage: seedtest.sh <patch.diff> <Cnn> [tier] [more check ids...]  — apply a seeded change to /repo, run checks, undo.
patch="$1"; shift
tier=quick
cd /repo || exit 2
if [ -n "$(git status --porcelain)" ]; then echo "REPO DIRTY - refusing"; exit 2; fi
git apply "$patch" || { echo "patch does not apply"; exit 2; }
trap 'git -C /repo checkout -- . ; git -C /repo clean -fdq src' EXIT
cd /verif
for id in "$@"; do
  case "$id" in quick|thorough) tier=$id; continue;; esac
  out=$(VERIF_SCRATCH=/verif/.scratch ./check "$id" $tier 2>&1 | cut -c1-220)
  echo "$out" | grep -E "VIOLATION" | head -3
  echo "$out" | grep -E "HELD|INCONCLUSIVE" | head -1
done
