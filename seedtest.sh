#!/bin/sh
# usage: seedtest.sh <patch.diff> <Cnn> [tier] [more check ids...]
# Runs the named checks against the repository *with the seeded change applied*.
# Default: a scratch git worktree of /repo HEAD (outside /repo and /verif) gets the patch and the checks are
# pointed at it (VERIF_REPO_SRC / VERIF_REPO_ROOT), so /repo itself is never touched and other runs are not
# disturbed.  With SEED_IN_PLACE=1 the patch is applied to /repo itself and undone straight afterwards.
patch="$1"; shift
tier=quick
if [ "${SEED_IN_PLACE:-0}" = "1" ]; then
  cd /repo || exit 2
  if [ -n "$(git status --porcelain)" ]; then echo "REPO DIRTY - refusing"; exit 2; fi
  git apply "$patch" || { echo "patch does not apply"; exit 2; }
  trap 'git -C /repo checkout -- . ; git -C /repo clean -fdq src' EXIT
  envs=""
else
  wt=$(mktemp -d /tmp/wts-XXXXXX); rmdir "$wt"
  git -C /repo worktree add -q --detach "$wt" HEAD || exit 2
  trap 'git -C /repo worktree remove --force "$wt" 2>/dev/null; rm -rf "$wt"' EXIT
  git -C "$wt" apply "$patch" || { echo "patch does not apply"; exit 2; }
  export VERIF_REPO_SRC="$wt/src" VERIF_REPO_ROOT="$wt"
fi
cd /verif
for id in "$@"; do
  case "$id" in quick|thorough) tier=$id; continue;; esac
  out=$(VERIF_SCRATCH=/verif/.scratch/seed-$$ VERIF_EVIDENCE_DIR=/verif/.scratch/seed-$$/evidence ./check "$id" $tier 2>&1 | cut -c1-220)
  echo "$out" | grep -E "VIOLATION" | head -3
  echo "$out" | grep -E "HELD|INCONCLUSIVE" | head -1
done
rm -rf /verif/.scratch/seed-$$
