#!/bin/bash
# usage: seedsweep.sh [Cnn ...]   — apply every kept seeded change in turn, run the check(s) recorded in its
# meta.json (quick tier), undo; prints one line per seed: CAUGHT / MISSED / DOES-NOT-APPLY.  Needs /repo clean.
cd /verif || exit 2
want="$*"
for d in seeded/*/; do
  n=$(basename "$d"); pid=${n%%-*}
  [ -n "$want" ] && ! echo " $want " | grep -q " $pid " && continue
  if ! git -C /repo apply --check "/verif/$d/patch.diff" 2>/dev/null; then echo "$n DOES-NOT-APPLY"; continue; fi
  checks=$(python3 -c "import json;print(' '.join(json.load(open('$d/meta.json')).get('caught_by_checks') or ['$pid']))")
  out=$(./seedtest.sh "/verif/$d/patch.diff" $checks 2>&1)
  obsolete=$(python3 -c "import json;print(json.load(open('$d/meta.json')).get('obsolete_after_fix',''))")
  if [ -n "$obsolete" ] && ! echo "$out" | grep -q VIOLATION; then echo "$n OBSOLETE (no longer breaks the property after fix $obsolete; see meta.json)"; continue; fi
  if echo "$out" | grep -q VIOLATION; then echo "$n CAUGHT by $(echo "$out" | grep -o 'property=C[0-9]*' | sort -u | tr '\n' ' ')"; else echo "$n MISSED ($checks): $(echo "$out" | tail -1 | cut -c1-120)"; fi
done
