#!/bin/bash
# usage: seedkeep.sh <Cnn> <dir with patch.diff demo.py notes.md> <name> [checks to run...]
# Confirms a seeded change independently (suite green with it, demo fails with it / passes without),
# runs the named checks against it, and files it under /verif/seeded/<Cnn>-<name>/ with meta.json.
set -u
pid="$1"; src="$2"; name="$3"; shift 3
checks=("$@"); [ ${#checks[@]} -eq 0 ] && checks=("$pid")
wt=$(mktemp -d /tmp/wtv-XXXXXX); rmdir "$wt"
git -C /repo worktree add -q --detach "$wt" HEAD || exit 2
cleanup() { git -C /repo worktree remove --force "$wt" 2>/dev/null; rm -rf "$wt"; }
trap cleanup EXIT
run_demo() { (cd "$wt" && PYTHONPATH="$wt/src" timeout 300 /venv/bin/python "$src/demo.py" >/tmp/seedkeep-demo.log 2>&1); echo $?; }
demo_clean=$(run_demo)
git -C "$wt" apply "$src/patch.diff" || { echo "PATCH DOES NOT APPLY"; exit 2; }
demo_seeded=$(run_demo)
suite=$(cd "$wt" && PYTHONPATH="$wt/src" /venv/bin/python -m pytest -q -p no:cacheprovider --timeout=900 --deselect "tests/tests/test_vol_schemas.py::test_known_list_bad[5]" 2>&1 | tail -1)
echo "demo on clean tree: exit $demo_clean ; demo on seeded tree: exit $demo_seeded ; suite with change: $suite"
ok=1
[ "$demo_clean" = "0" ] || ok=0
[ "$demo_seeded" != "0" ] || ok=0
echo "$suite" | grep -q " failed" && { echo "(suite has failures - rerunning once for flakiness)"; suite=$(cd "$wt" && PYTHONPATH="$wt/src" /venv/bin/python -m pytest -q -p no:cacheprovider --timeout=900 --deselect "tests/tests/test_vol_schemas.py::test_known_list_bad[5]" 2>&1 | tail -1); echo "  rerun: $suite"; echo "$suite" | grep -q " failed" && ok=0; }
caught=""
for c in "${checks[@]}"; do
  res=$(/verif/seedtest.sh "$src/patch.diff" "$c" | head -3)
  echo "--- $c: $res" | cut -c1-300
  echo "$res" | grep -q VIOLATION && caught="$caught $c"
done
dest="/verif/seeded/$pid-$name"
if [ $ok = 1 ]; then
  mkdir -p "$dest"; cp "$src/patch.diff" "$src/demo.py" "$dest/"; [ -f "$src/notes.md" ] && cp "$src/notes.md" "$dest/"
  python3 - "$pid" "$name" "$demo_clean" "$demo_seeded" "$suite" "$caught" "$dest" "$(git -C /repo rev-parse --short HEAD)" <<'PY'
import json,sys
pid,name,dc,ds,suite,caught,dest,head=sys.argv[1:9]
notes=open(dest+"/notes.md").read() if __import__("os").path.exists(dest+"/notes.md") else ""
json.dump({"property":pid,"name":name,"breaks":pid,"repo_head_when_confirmed":head,
 "needs_to_manifest":"see notes.md (section on what it needs to manifest)",
 "confirmed":{"demo_exit_on_clean_tree":int(dc),"demo_exit_on_seeded_tree":int(ds),"suite_with_change":suite,
   "how":"fresh git worktree of /repo HEAD outside /repo and /verif; PYTHONPATH=<wt>/src /venv/bin/python demo.py before and after git apply patch.diff; pinned pytest suite with the change"},
 "caught_by_checks":caught.split(),"ran":"seedtest.sh patch.diff "+" ".join(caught.split() or [pid])+" (quick tier)"},open(dest+"/meta.json","w"),indent=1)
PY
  echo "KEPT -> $dest (caught by:$caught)"
else
  echo "NOT KEPT (confirmation failed)"; tail -5 /tmp/seedkeep-demo.log
fi
